#!/bin/bash
# usage: tools/mutant.sh <prop> <file-relative-to-repo> <sed-expression> [extra check args]
# applies a sed edit to a scratch copy of /repo under $TMPDIR, runs the check against it, removes the copy
set -e
prop=$1; file=$2; expr=$3; shift 3
d=$(mktemp -d ${TMPDIR:-/tmp}/pyvc_mut.XXXXXX)
cp -r /repo/basic_robotics "$d/"
sed -i "$expr" "$d/$file"
if diff -q /repo/$file "$d/$file" >/dev/null; then echo "mutant: sed changed nothing"; rm -rf "$d"; exit 9; fi
diff /repo/$file "$d/$file" | head -6
cd "$(dirname "$0")/.."
set +e
./check "$prop" --repo "$d" --no-evidence "$@" | cut -c1-220 | head -${MUT_LINES:-8}
rc=${PIPESTATUS[0]}
rm -rf "$d"
echo "exit=$rc"
