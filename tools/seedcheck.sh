#!/bin/bash
# usage: tools/seedcheck.sh <prop> <seed-dir> [extra check args]
# applies <seed-dir>/patch.diff to a scratch copy of /repo's HEAD (never to /repo itself), verifies the demo
# (passes on clean, fails on patched), runs the check against the patched copy, removes the copy.
prop=$1; sd=$2; shift 2
d=$(mktemp -d ${TMPDIR:-/tmp}/pyvc_seed.XXXXXX)
git -C /repo archive HEAD | tar -x -C "$d"
cd "$d"
echo "== demo on clean copy:"; PYTHONPATH="$d" /venv/bin/python "$sd/demo.py" 2>&1 | grep -v -i "warning" | tail -2
if ! git apply --check "$sd/patch.diff" 2>/dev/null && ! patch -p1 --dry-run < "$sd/patch.diff" >/dev/null 2>&1; then echo "PATCH DOES NOT APPLY"; cd /; rm -rf "$d"; exit 9; fi
patch -p1 -s < "$sd/patch.diff"
echo "== demo on patched copy:"; PYTHONPATH="$d" /venv/bin/python "$sd/demo.py" 2>&1 | grep -v -i "warning" | tail -2
cd /verif
echo "== check $prop on patched copy:"
./check "$prop" --repo "$d" --no-evidence "$@" 2>&1 | cut -c1-230 | grep -v "^  obligation" | head -${SEED_LINES:-6}
rc=${PIPESTATUS[0]}
rm -rf "$d"
echo "exit=$rc"
