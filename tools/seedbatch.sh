#!/bin/bash
# usage: tools/seedbatch.sh <logfile> <Cxx_k> ...   -- runs each stored seed against its property's quick check
log=$1; shift
for s in "$@"; do
  p=${s%_*}
  echo "##### $s" >> $log
  SEED_LINES=3 /verif/tools/seedcheck.sh $p /verif/seeded/$s 2>&1 | grep -E "PATCH DOES NOT|VIOLATION|^pyvc|exit=|PASS|FAIL" | cut -c1-200 | tail -6 >> $log
done
echo DONE >> $log
