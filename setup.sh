#!/bin/bash
# Build /verif/.venv offline: python 3.12 venv (from /venv's interpreter) + z3-solver, cvc5, sympy, jsonschema
# from the offline wheelhouse, and a .pth that exposes /venv's site-packages (numpy, numba, scipy, rtree, the
# editable basic_robotics) -- `--system-site-packages` does not work because /venv is itself a venv.
set -e
cd "$(dirname "$0")"
if [ -x .venv/bin/python ] && .venv/bin/python -c "import z3, numpy, numba, jsonschema" 2>/dev/null; then
  echo "venv ok"; exit 0
fi
rm -rf .venv
/venv/bin/python -m venv .venv
PIP_NO_INDEX=1 .venv/bin/pip install -q --no-index --find-links /opt/veriftools/wheels z3-solver cvc5 sympy jsonschema >/dev/null
echo "import site; site.addsitedir('/venv/lib/python3.12/site-packages')" > .venv/lib/python3.12/site-packages/_repo_venv.pth
.venv/bin/python -c "import z3, numpy, numba, scipy, jsonschema; print('venv built: z3', z3.get_version_string(), 'numpy', numpy.__version__)"
