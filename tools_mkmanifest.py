import json
props=[json.loads(l) for l in open('/verif/properties.jsonl')]
claimed=json.load(open('/verif/claims.json'))
na_reasons=json.load(open('/verif/na.json'))
checks=[]; na=[]
for p in props:
    pid=p['id']
    if pid in claimed:
        c=claimed[pid]
        checks.append(dict(property_id=pid, quick_cmd='./check %s --tier quick'%pid, thorough_cmd='./check %s --tier thorough'%pid,
            evidence_file='evidence/%s.json'%pid, replay_cmd_template='./check --replay {path}', engine='pyvc',
            level_claimed=dict(category=c.get('category','proof'), text=c['text'], design_ref=c.get('design_ref','DESIGN.md §4-'+pid)),
            level_note=c['note'], technique=c.get('technique','contract-based deductive verification: symbolic execution of the real source against sidecar contracts; obligations discharged by z3/cvc5 and z3-checked ring certificates')))
    else:
        na.append(dict(property_id=pid, reason=na_reasons.get(pid, 'not built in the time available (contracts for this property are not written); see DESIGN.md section 11')))
m=dict(version=1, setup_cmd='./setup.sh',
  hooks=dict(guard='BASIC_ROBOTICS_VERIF', enable='no hooks: contracts are sidecar files and the extraction is an in-memory AST transform', baseline_off_cmd='cd /repo && /venv/bin/python -m pytest -ra -q -p no:cacheprovider --timeout=900 --continue-on-collection-errors', source_commits=[], add_only=True),
  engines=[dict(name='pyvc', path='pyvc/', serves_properties=sorted(claimed), kind_free_text='deductive verifier generating VCs by native symbolic execution of the transformed real source against sidecar contracts; back ends z3, cvc5, z3-checked ring certificates')],
  checks=checks, not_applicable=na,
  notes='exit codes: 0 held, 1 violation (replayed natively), 2 undecided, 3 engine error. See DESIGN.md.')
json.dump(m, open('/verif/MANIFEST.json','w'), indent=1)
import jsonschema
jsonschema.validate(m, json.load(open('/root/.vp/MANIFEST.schema.json')))
print('manifest ok', len(checks), 'checks', len(na), 'n/a')
