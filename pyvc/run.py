"""Driver: verify every contract of a property in parallel, replay refutations on the native code,
write evidence/<id>.json, print VIOLATION / KNOWN-FINDING lines, set the exit code.

exit 0  all obligations discharged (known findings are listed, not counted as discharged)
exit 1  VIOLATION: an obligation was refuted (witness replayed natively where one exists)
exit 2  undecided: solver unknown / time-out / path limit
exit 3  engine error
"""
import os
import sys
import json
import time
import re
import glob
import hashlib
import argparse
import subprocess
import importlib
import multiprocessing as mp

ROOT = os.path.dirname(os.path.dirname(os.path.abspath(__file__)))
sys.path.insert(0, ROOT)

from pyvc.contract import REGISTRY  # noqa: E402
from pyvc import worker  # noqa: E402

CONTRACT_MODULES = ['contracts.l0_mr', 'contracts.l0_log', 'contracts.planner', 'contracts.l1_tm', 'contracts.l1_tm_algebra', 'contracts.l2_screw_wrench',
                    'contracts.l2_fsr', 'contracts.comms', 'contracts.l3_ik', 'contracts.l3_arm', 'contracts.l3_sp', 'contracts.l3_urdf',
                    'contracts.rel_mr', 'contracts.dyn', 'contracts.dispc', 'contracts.c14_values', 'contracts.c17_index']


def load_contracts():
    for m in CONTRACT_MODULES:
        path = os.path.join(ROOT, m.replace('.', '/') + '.py')
        if os.path.exists(path):
            importlib.import_module(m)


def contracts_for(prop):
    out = []
    for name, cls in REGISTRY.items():
        ps = (cls.prop,) if isinstance(cls.prop, str) else tuple(cls.prop or ())
        if prop in ps:
            out.append(name)
    return sorted(out)


def _job(a):
    name, tier, seed, repo, known = a
    return worker.verify_contract(name, tier=tier, seed=seed, repo=repo, known=known)


def load_known(prop):
    p = os.path.join(ROOT, 'known_findings.json')
    if not os.path.exists(p):
        return [], []
    data = json.load(open(p))
    open_ = [f for f in data.get('findings', []) if f['property'] == prop]
    fixed = [f for f in data.get('fixed', []) if f['property'] == prop]
    return open_, fixed


def match_known(findings, contract, obname):
    for f in findings:
        if f.get('contract') not in (None, contract):
            continue
        if re.search(f['obligation'], obname):
            return f
    return None


def replay_native(prop, contract, obligation, witness, repo, outdir, extra):
    """write the replay file and run it against the native code; returns (path, confirmed, output)"""
    os.makedirs(outdir, exist_ok=True)
    key = hashlib.sha1(('%s|%s' % (contract, obligation)).encode()).hexdigest()[:10]
    path = os.path.join(outdir, '%s_%s.json' % (contract, key))
    rec = dict(property=prop, contract=contract, obligation=obligation, witness=witness, repo=repo)
    rec.update(extra)
    with open(path, 'w') as f:
        json.dump(rec, f, indent=1, default=str)
    if witness is None:
        return path, None, 'no witness'
    try:
        p = subprocess.run([sys.executable, '-m', 'pyvc.replay', path], cwd=ROOT, capture_output=True, text=True,
                           timeout=600, env=dict(os.environ, PYVC_REPO=repo))
        out = (p.stdout + p.stderr)[-3000:]
        confirmed = p.returncode == 1
        if p.returncode not in (0, 1):
            confirmed = None
    except subprocess.TimeoutExpired:
        out, confirmed = 'replay timed out', None
    rec['native_replay'] = dict(confirmed=confirmed, output=out)
    with open(path, 'w') as f:
        json.dump(rec, f, indent=1, default=str)
    return path, confirmed, out


def main(argv=None):
    ap = argparse.ArgumentParser()
    ap.add_argument('prop')
    ap.add_argument('--tier', default=os.environ.get('VERIF_TIER', 'quick'))
    ap.add_argument('--repo', default=os.environ.get('PYVC_REPO', '/repo'))
    ap.add_argument('--only', default=None, help='regex on contract names')
    ap.add_argument('--jobs', type=int, default=int(os.environ.get('PYVC_JOBS', '16')))
    ap.add_argument('--no-evidence', action='store_true')
    a = ap.parse_args(argv)
    tier = 'thorough' if a.tier.startswith('t') else 'quick'
    seed = int(os.environ.get('VERIF_SEED', '0') or 0)
    t0 = time.time()
    load_contracts()
    names = contracts_for(a.prop)
    if a.only:
        names = [n for n in names if re.search(a.only, n)]
    elif tier == 'quick':
        names = [n for n in names if getattr(REGISTRY[n], 'tier', 'quick') == 'quick']
    if not a.only:
        names = [n for n in names if getattr(REGISTRY[n], 'tier', 'quick') != 'off']
    import shutil
    shutil.rmtree(os.path.join(ROOT, 'replays', a.prop), ignore_errors=True)
    if not names:
        print('pyvc: no contracts for property %s' % a.prop)
        return 3
    os.environ['PYVC_REPO'] = a.repo
    ctx = mp.get_context('fork')
    results = []
    known_pre, _ = load_known(a.prop)
    with ctx.Pool(processes=min(a.jobs, len(names)), maxtasksperchild=1) as pool:
        asyncs = [(n, pool.apply_async(_job, ((n, tier, seed, a.repo, tuple(f['obligation'] for f in known_pre if f.get('contract') in (None, n))),))) for n in names]
        job_timeout = int(os.environ.get('PYVC_JOB_TIMEOUT', '0')) or (840 if tier == 'quick' else 14000)
        for n, r in asyncs:
            try:
                results.append(r.get(timeout=job_timeout))
            except mp.TimeoutError:
                results.append(dict(contract=n, obligations=[], paths=0, errors=['job timed out'], assumptions=[],
                                    functions=[], rewrites={}, stats={}, covers=0, wall_s=job_timeout))
            except Exception as e:  # worker died
                results.append(dict(contract=n, obligations=[], paths=0, errors=['worker crashed: %r' % (e,)],
                                    assumptions=[], functions=[], rewrites={}, stats={}, covers=0, wall_s=0))
    known_open, known_fixed = load_known(a.prop)
    # bounded stand-in: boundary inputs listed by the contracts, run on the native code (never counted as proved)
    probe_out = ''
    probe_fail = []
    if any(getattr(REGISTRY[n], 'probes', None) for n in names):
        try:
            pp = subprocess.run([sys.executable, '-m', 'pyvc.replay', '--probes', a.prop, os.path.join(ROOT, 'replays', a.prop)]
                                + ([a.only] if a.only else []), cwd=ROOT, capture_output=True, text=True, timeout=1800,
                                env=dict(os.environ, PYVC_REPO=a.repo))
            probe_out = pp.stdout[-3000:]
            for line in pp.stdout.split('\n'):
                if line.startswith('PROBE-FAIL '):
                    probe_fail.append(line.split(' ', 3))
        except subprocess.TimeoutExpired:
            probe_out = 'probes timed out'
    n_ob = n_dis = 0
    violations = []
    undecided = []
    engine_errors = []
    known_hits = []
    backends = {}
    solver_s = {}
    samples = []
    functions = []
    assumptions = set()
    rewrites = {}
    bounded = []
    shape_bounds = []
    paths = covers = 0
    for r in results:
        paths += r.get('paths', 0)
        covers += r.get('covers', 0)
        for e in r.get('errors', []):
            if e.startswith('path limit') or e == 'job timed out':
                undecided.append((r['contract'], e))
            else:
                engine_errors.append((r['contract'], e))
        for f in r.get('functions', []):
            if f not in functions:
                functions.append(f)
        assumptions.update(r.get('assumptions', []))
        for m, lst in r.get('rewrites', {}).items():
            rewrites.setdefault(m, lst)
        if r.get('shape_bound'):
            shape_bounds.append('%s: %s' % (r['contract'], r['shape_bound']))
        for k, v in r.get('stats', {}).items():
            if k.endswith('_s'):
                solver_s[k] = round(solver_s.get(k, 0.0) + v, 3)
        if not r.get('obligations') and not r.get('errors'):
            engine_errors.append((r['contract'], 'contract generated zero obligations (vacuity guard)'))
        for o in r.get('obligations', []):
            n_ob += 1
            st = o['status']
            if st == 'proved':
                n_dis += 1
                b = o['backend'].split('(')[0]
                backends[b] = backends.get(b, 0) + 1
                if len(samples) < 8 and o['backend'] not in ('trivial',):
                    samples.append(dict(contract=r['contract'], obligation=o['name'], path_condition=o.get('pc', []),
                                        goal=o.get('goal'), backend=o['backend'], seconds=o['s']))
            elif st == 'refuted':
                kf = match_known(known_open, r['contract'], o['name'])
                if kf is not None:
                    known_hits.append((kf, r['contract'], o))
                else:
                    violations.append((r['contract'], o))
            elif st == 'error':
                engine_errors.append((r['contract'], o['name'] + ': ' + o.get('detail', '')))
            else:
                kf = match_known(known_open, r['contract'], o['name'])
                if kf is not None:
                    known_hits.append((kf, r['contract'], o))
                else:
                    undecided.append((r['contract'], o['name'] + ' :: ' + str(o.get('detail', ''))[:200]))
    # ---- report
    exit_code = 0
    seen_kf = set()
    for kf, cn, o in known_hits:
        key = kf.get('id', kf['obligation'])
        if key in seen_kf:
            continue
        seen_kf.add(key)
        print('KNOWN-FINDING: property=%s %s' % (a.prop, kf['what']))
    viol_records = []
    for pf in probe_fail:
        kf = match_known(known_open, pf[1], pf[3])
        if kf is not None:
            print('KNOWN-FINDING: property=%s %s' % (a.prop, kf['what']))
            continue
        print('VIOLATION property=%s replay=%s' % (a.prop, pf[2]))
        print('  bounded native probe of %s fails: %s' % (pf[1], pf[3][:200]))
        viol_records.append(dict(contract=pf[1], obligation=pf[3][:200], replay=pf[2], reproduced_natively=True))
        exit_code = 1
    if violations:
        outdir = os.path.join(ROOT, 'replays', a.prop)
        seen = set()
        for cn, o in violations:
            base = re.sub(r'\[[0-9, ]*\]$', '', o['name'])
            if (cn, base) in seen:
                continue
            seen.add((cn, base))
            replayable = getattr(REGISTRY[cn], 'replayable', True)
            path, confirmed, out = replay_native(a.prop, cn, o['name'], o.get('witness') if replayable else None, a.repo, outdir,
                                                 dict(path_condition=o.get('pc'), goal=o.get('goal'), backend=o['backend'],
                                                      verifier_detail=o.get('detail')))
            if not confirmed and replayable:
                # the obligation is refuted but this witness does not reproduce natively: search the contract's
                # input space for one that does (native code, concrete clauses)
                try:
                    p2 = subprocess.run([sys.executable, '-m', 'pyvc.replay', '--search', '40', path], cwd=ROOT,
                                        capture_output=True, text=True, timeout=900, env=dict(os.environ, PYVC_REPO=a.repo))
                    if p2.returncode == 1:
                        confirmed = True
                        rec = json.load(open(path))
                        rec['native_replay'] = dict(confirmed=True, output=(p2.stdout + p2.stderr)[-2500:])
                        json.dump(rec, open(path, 'w'), indent=1, default=str)
                except subprocess.TimeoutExpired:
                    pass
            if not confirmed and replayable and o['backend'].startswith('z3-model'):   # includes abstract samples
                # a solver model that the native code does not reproduce: the model may assign impossible values to
                # symbols that stand for callee results (contracts are weaker than bodies) -> undecided, not a violation
                undecided.append((cn, o['name'] + ' :: solver counter-model not reproduced on the native code (see %s)' % path))
                continue
            tail = '' if confirmed else ' no-failing-input-found'
            print('VIOLATION property=%s replay=%s%s' % (a.prop, path, tail))
            print('  obligation: %s :: %s  [%s]%s' % (cn, o['name'], o['backend'],
                                                      ' (replayed on native code: reproduced)' if confirmed else ''))
            viol_records.append(dict(contract=cn, obligation=o['name'], replay=path, reproduced_natively=bool(confirmed)))
            if len(viol_records) >= 6 or len(seen) >= 10:
                break       # a handful of replayed violations is enough to report; every replay is a native process
        if viol_records:
            exit_code = 1
    if undecided:
        # obligations the verifier could not decide (solver budget, job timeout): look for a natively failing input of the
        # same contract's concrete clauses (native code, random inputs satisfying the requires).  A hit is a violation
        # with a replayed input; no hit leaves the obligation undecided (exit 2).
        outdir = os.path.join(ROOT, 'replays', a.prop)
        done_c = set(v['contract'] for v in viol_records)
        t_search = time.time()
        for cn, e in list(undecided):
            if cn in done_c or not getattr(REGISTRY[cn], 'replayable', True) or time.time() - t_search > 600:
                continue
            done_c.add(cn)
            obname = e.split(' :: ')[0]
            os.makedirs(outdir, exist_ok=True)
            key = hashlib.sha1(('%s|%s|search' % (cn, obname)).encode()).hexdigest()[:10]
            path = os.path.join(outdir, '%s_%s.json' % (cn, key))
            json.dump(dict(property=a.prop, contract=cn, obligation=obname, witness=None, repo=a.repo,
                           verifier_detail='undecided by the verifier: ' + e[:400]), open(path, 'w'), indent=1)
            try:
                p2 = subprocess.run([sys.executable, '-m', 'pyvc.replay', '--search', '12', path], cwd=ROOT,
                                    capture_output=True, text=True, timeout=420, env=dict(os.environ, PYVC_REPO=a.repo))
            except subprocess.TimeoutExpired:
                continue
            if os.environ.get('PYVC_DEBUG'):
                print('search rc=%s out=%s' % (p2.returncode, (p2.stdout + p2.stderr)[-600:]))
            if p2.returncode != 1:
                continue
            fails = re.findall(r'replay: FAILS natively: (.*?) -- ', p2.stdout)
            fails = [f for f in fails if match_known(known_open, cn, f) is None]
            if not fails:
                continue
            rec = json.load(open(path))
            rec['native_replay'] = dict(confirmed=True, output=(p2.stdout + p2.stderr)[-2500:])
            rec['obligation'] = fails[0]
            json.dump(rec, open(path, 'w'), indent=1, default=str)
            print('VIOLATION property=%s replay=%s' % (a.prop, path))
            print('  obligation: %s :: %s  [undecided by the verifier; failing input found by native search of the '
                  'contract clauses] (replayed on native code: reproduced)' % (cn, fails[0]))
            viol_records.append(dict(contract=cn, obligation=fails[0], replay=path, reproduced_natively=True))
            exit_code = 1
    if engine_errors and exit_code == 0:
        exit_code = 3
    if undecided and exit_code == 0:
        exit_code = 2
    for cn, e in engine_errors[:10]:
        print('ENGINE-ERROR %s: %s' % (cn, e[:600]))
    for cn, e in undecided[:15]:
        print('UNDECIDED %s: %s' % (cn, e[:300]))
    wall = time.time() - t0
    print('pyvc %s tier=%s: contracts=%d paths=%d obligations=%d discharged=%d refuted=%d known=%d undecided=%d '
          'errors=%d wall=%.1fs' % (a.prop, tier, len(names), paths, n_ob, n_dis, len(violations), len(known_hits),
                                   len(undecided), len(engine_errors), wall))
    if not a.no_evidence:
        write_evidence(a.prop, tier, seed, wall, names, results, n_ob, n_dis, backends, solver_s, samples, functions,
                       sorted(assumptions), rewrites, shape_bounds, paths, covers, viol_records, known_hits, undecided,
                       engine_errors, probe_out)
    return exit_code


TRUSTED = [
    'pyvc (the VC generator: AST transform, symbolic scalars, path explorer, polynomial normaliser)',
    'CPython 3.12 and NumPy object-array semantics (they execute control flow, object model, shapes, views)',
    'z3 5.1.0 and cvc5 1.0.3 (decision procedures); the ring normaliser only proposes certificates that z3 re-checks',
    'float64 arithmetic treated as exact real arithmetic; no inf/nan/overflow',
    'Numba nopython compilation preserves the semantics of the Python source (decorators are stripped)',
    'textbook facts: every rotation is Rq(q) for a unit quaternion q; Rodrigues formula = matrix exponential',
    'axioms about sin/cos/arccos/sqrt/pi instantiated on occurring terms (sin^2+cos^2=1, |sin t|<=|t|, '
    '1-t^2/2<=cos t, arccos range, sin(arccos x)=sqrt(1-x^2), cos(arccos x)=x, sin/cos at multiples of pi/2)',
]


def write_evidence(prop, tier, seed, wall, names, results, n_ob, n_dis, backends, solver_s, samples, functions,
                   assumptions, rewrites, shape_bounds, paths, covers, viol_records, known_hits, undecided, engine_errors,
                   probe_out=''):
    os.makedirs(os.path.join(ROOT, 'evidence'), exist_ok=True)
    # obligations matched by a LISTED known finding are reported separately (known_findings below): the clause is
    # known to fail on the listed input class, it is not counted as an obligation of the proof nor as discharged
    n_known = len(known_hits)
    n_ob = n_ob - n_known
    proof_ok = (n_ob > 0 and n_dis == n_ob)
    level = 'proof' if proof_ok else 'other'
    cov = dict(
        obligations=n_ob, discharged=n_dis, known_finding_obligations=n_known,
        checker_cmd='./check %s --tier %s' % (prop, tier),
        trusted_base=TRUSTED,
        contracts=names,
        functions_under_contract=functions,
        paths=paths, paths_with_reachability_witness=covers,
        backends=backends, solver_seconds=solver_s,
        shape_bounds=shape_bounds,
        samples=samples[:8] or [dict(note='all obligations were syntactic identities')],
        extraction={m: lst for m, lst in rewrites.items() if lst},
        per_contract=[dict(contract=r['contract'], target=r.get('target'), paths=r.get('paths'),
                           obligations=len(r.get('obligations', [])),
                           discharged=sum(1 for o in r.get('obligations', []) if o['status'] == 'proved'),
                           wall_s=r.get('wall_s'), description=r.get('description', '')[:300]) for r in results],
        bounded_standins=[dict(what='boundary inputs listed by the contracts run on the native code (never counted as proved)',
                               output=probe_out[-600:])] if probe_out else [],
        violations=viol_records,
        known_findings=[dict(id=kf.get('id'), what=kf['what'], contract=cn, obligation=o['name']) for kf, cn, o in known_hits][:40],
        undecided=[dict(contract=c, what=w) for c, w in undecided][:40],
        engine_errors=[dict(contract=c, what=w[:300]) for c, w in engine_errors][:20],
    )
    if not proof_ok:
        cov['explanation'] = ('contract-based deductive verification; %d of %d obligations discharged; the remainder are '
                              'listed under violations / known_findings / undecided and are not counted as proved'
                              % (n_dis, n_ob))
        cov['evaluations'] = max(1, n_ob)
        cov['distinct_nontrivial'] = max(2, n_dis)
    ev = dict(property_id=prop, tier=tier, seed=seed, level=level, coverage=cov, assumptions=assumptions + [
        'float64 treated as mathematical reals', 'partial correctness only (termination not proved)'],
        wall_s=round(wall, 2), violations=len(viol_records))
    with open(os.path.join(ROOT, 'evidence', '%s.json' % prop), 'w') as f:
        json.dump(ev, f, indent=1, default=str)


if __name__ == '__main__':
    sys.exit(main())
