"""Path exploration: the real function object is re-executed under decision vectors; every
`SB.__bool__` is a decision; the path condition is the conjunction of the literals taken."""
import time
import traceback
from . import terms as T
from .terms import SR, SB, snot, sand, EngineError, evaluate, EvalUndefined, subterms
from . import solve
from .poly import TooLarge


class AssumeFalse(Exception):
    """the current path was cut by an assumption that is false on it"""


class PathLimit(Exception):
    pass


class Obligation:
    __slots__ = ('name', 'kind', 'hyps', 'goal', 'path', 'info', 'tol', 'pair')

    def __init__(self, name, kind, hyps, goal, path, info=None, tol=None, pair=None):
        self.name = name
        self.kind = kind          # ensures | safety | frame | exception | callee-requires | invariant | cover
        self.hyps = hyps          # tuple of SB
        self.goal = goal          # SB
        self.path = path
        self.info = info or {}
        self.tol = tol
        self.pair = pair          # (lhs SR, rhs SR) for equalities


class SampleEval:
    """memoised float evaluation of terms under one concrete assignment of the input symbols"""

    def __init__(self, env):
        self.env = env
        self.val = {}

    def get(self, term):
        v = self.val.get(term.id)
        if v is not None or term.id in self.val:
            return v
        todo = [n for n in subterms([term]) if n.id not in self.val]
        for n in todo:
            self.val[n.id] = _eval_node(n, self.val, self.env)
        return self.val[term.id]


def _eval_node(n, val, env):
    import math
    if isinstance(n, SR):
        op = n.op
        if op == 'c':
            return float(n.extra)
        if op == 'v':
            if n.extra in env:
                return float(env[n.extra])
            if n.extra == 'pi':
                return math.pi
            raise EvalUndefined(n.extra)
        a = [val[x.id] for x in n.args]
        if op == '+':
            return a[0] + a[1]
        if op == '*':
            return a[0] * a[1]
        if op == '/':
            return a[0] / a[1] if a[1] != 0 else float('nan')
        if op == 'neg':
            return -a[0]
        if op == 'ite':
            return a[1] if a[0] else a[2]
        if op == 'fn':
            x = a[0]
            f = n.extra
            if x != x:
                return x
            if f == 'sqrt':
                return math.sqrt(x) if x >= 0 else (0.0 if x > -1e-13 else float('nan'))
            if f == 'abs':
                return abs(x)
            if f == 'sin':
                return math.sin(x)
            if f == 'cos':
                return math.cos(x)
            if f == 'tan':
                return math.tan(x)
            if f == 'arccos':
                return math.acos(max(-1.0, min(1.0, x))) if -1 - 1e-9 <= x <= 1 + 1e-9 else float('nan')
            if f == 'arcsin':
                return math.asin(max(-1.0, min(1.0, x))) if -1 - 1e-9 <= x <= 1 + 1e-9 else float('nan')
            if f == 'floor':
                return float(math.floor(x))
            raise EvalUndefined(f)
        if op == 'fn2' and n.extra == 'arctan2':
            return math.atan2(a[0], a[1])
        raise EvalUndefined(op + ':' + str(n.extra))
    op = n.op
    if op == 'T':
        return True
    if op == 'F':
        return False
    if op == 'bv':
        if n.extra in env:
            return bool(env[n.extra])
        raise EvalUndefined(n.extra)
    a = [val[x.id] for x in n.args]
    if op == '<':
        return a[0] < a[1]
    if op == '<=':
        return a[0] <= a[1]
    if op == '==':
        return a[0] == a[1]
    if op == 'not':
        return not a[0]
    if op == 'and':
        return all(a)
    if op == 'or':
        return any(a)
    raise EvalUndefined(op)


def truth_level(lit, se, tol=1e-9):
    """2: true (equalities within tol), 1: true only within tol (boundary), 0: false.  May raise EvalUndefined."""
    op = lit.op
    if op in ('<', '<=', '=='):
        a = se.get(lit.args[0])
        b = se.get(lit.args[1])
        if a != a or b != b:
            return 0
        sc = max(1.0, abs(a), abs(b))
        if op == '==':
            return 2 if abs(a - b) <= tol * sc else 0
        if op == '<=':
            return 2 if a <= b else (1 if a <= b + tol * sc else 0)
        return 2 if a < b else (1 if a < b + tol * sc else 0)
    if op == 'and':
        return min(truth_level(x, se, tol) for x in lit.args)
    if op == 'or':
        return max(truth_level(x, se, tol) for x in lit.args)
    if op == 'not':
        inner = lit.args[0]
        if inner.op == '==':
            a = se.get(inner.args[0])
            b = se.get(inner.args[1])
            return 2 if a != b else 0
        return 2 if truth_level(inner, se, 0.0) == 0 else 0
    if op == 'T':
        return 2
    if op == 'F':
        return 0
    return 2 if se.get(lit) else 0


class PathCtx:
    """exploration context of one path"""

    def __init__(self, explorer, decisions):
        self.ex = explorer
        self.decisions = list(decisions)
        self.pos = 0
        self.pc = []                 # literals taken (SB)
        self.known = {}              # SB id -> bool
        self.hyps = []               # requires + assumptions (SB)
        self.obligations = []
        self.assumption_notes = explorer.assumption_notes
        self.alternatives = []
        self.live = list(explorer.samples)   # SampleEval objects consistent with the path so far
        self.loose = set()                   # ids of live samples that satisfy some literal only within tolerance
        self.known_canon = {}                # canonical (polynomial) form of decided comparisons -> value
        self._pending_canon = None
        self.concretize = None
        self.fresh = {}
        self.symbolic_random = True
        self.n_forced = 0
        self.trace = []
        self.cut = False

    # -- hypotheses -------------------------------------------------------------------------------
    def assume(self, sb, tag=None):
        sb = T.SB_lift(sb)
        if sb.op == 'T':
            return
        if sb.op == 'F':
            raise AssumeFalse(tag or 'assume False')
        if sb.op == 'and':
            for a in sb.args:
                self.assume(a, tag)
            return
        self.hyps.append(sb)
        self.known[sb.id] = True
        self.known[snot(sb).id] = False
        self._filter_live(sb)

    def note_assumption(self, text):
        self.assumption_notes.add(text)

    def fresh_id(self, prefix):
        self.fresh[prefix] = self.fresh.get(prefix, 0) + 1
        return self.fresh[prefix]

    def fresh_real(self, prefix):
        return SR.var('%s%d' % (prefix, self.fresh_id(prefix)))

    def _filter_live(self, lit):
        keep = []
        for s in self.live:
            try:
                lv = truth_level(lit, s)
                if lv:
                    if lv == 1:
                        self.loose.add(id(s))
                    keep.append(s)
            except (EvalUndefined, OverflowError, ZeroDivisionError, ValueError):
                pass
        self.live = keep

    def entails(self, sb):
        """do the hypotheses of the path so far entail sb?  (used by the normaliser for sign decisions)"""
        sb = T.SB_lift(sb)
        if sb.op == 'T':
            return True
        k = self.known.get(sb.id)
        if k is not None:
            return k
        if self.fresh.get(('ent+', sb.id)):
            return True                     # hypotheses only grow: a proved entailment stays proved
        key = ('ent', sb.id, len(self.pc))  # a failed attempt is retried only after a new branch decision
        if key in self.fresh:
            return self.fresh[key]
        # quick refutation by a live sample
        r = None
        for s in self.live[:6]:
            try:
                if truth_level(sb, s, 0.0) == 0:
                    r = False
                    break
            except (EvalUndefined, OverflowError, ZeroDivisionError, ValueError):
                pass
        gkey = None
        if r is None:
            gkey = (sb.id, hash(tuple(h.id for h in self.all_hyps())))
            r = self.ex.ent_cache.get(gkey)      # paths are re-executed from scratch: same question, same hypotheses
        if r is None:
            saved = T.CTX[0]
            T.CTX[0] = None
            try:
                # term-level export only: the normaliser must not be re-entered (its caches would be filled
                # without the sign information that is being asked for)
                st, _, _ = solve.z3_check(list(self.all_hyps()), sb, timeout_s=0.6, alg=None)
            finally:
                T.CTX[0] = saved
            r = (st == 'proved')
            if gkey is not None:
                self.ex.ent_cache[gkey] = r
        self.fresh[key] = r
        if r:
            self.fresh[('ent+', sb.id)] = True
        return r

    def strict_live(self):
        return [s for s in self.live if id(s) not in self.loose]

    def all_hyps(self):
        return tuple(self.hyps) + tuple(self.pc)

    # -- obligations ------------------------------------------------------------------------------
    def oblige(self, name, goal, kind='ensures', info=None, tol=None, pair=None):
        goal = T.SB_lift(goal)
        self.obligations.append(Obligation(name, kind, self.all_hyps(), goal, tuple(self.decisions[:self.pos]),
                                           info, tol, pair))

    def safety(self, name, goal, kind='safety', term=None):
        goal = T.SB_lift(goal)
        if goal.op == 'T':
            return
        if self.known.get(goal.id) is True:
            return
        key = ('safety', goal.id)
        if key in self.fresh:
            return
        self.fresh[key] = 1
        where = _caller_site()
        self.obligations.append(Obligation('%s @ %s' % (name, where), 'safety', self.all_hyps(), goal,
                                           tuple(self.decisions[:self.pos]), {'site': where}))
        # after the check the fact may be used on this path (a failed check is reported anyway)
        self.known[goal.id] = True
        self.hyps.append(goal)

    # -- decisions --------------------------------------------------------------------------------
    def decide(self, sb):
        k = self.known.get(sb.id)
        if k is not None:
            return k
        if sb.op in ('<', '<=', '==') and self.ex.alg is not None:
            # decided by the canonical (ring normal) form?  then it is not a branch point at all
            try:
                c = self.ex.alg.canon_cmp(sb.op, sb.args[0], sb.args[1])
            except TooLarge:
                c = None
            if c is True or c is False:
                self.known[sb.id] = c
                return c
            if c is not None:
                # the same condition written differently (e.g. by a second implementation) is the same decision
                ck = (c[0], frozenset(c[1].items()))
                got = self.known_canon.get(ck)
                if got is not None:
                    self.known[sb.id] = got
                    return got
                if c[0] != '==':
                    # p < 0 decided  =>  -p <= 0 decided (and vice versa)
                    nk = ('<=' if c[0] == '<' else '<', frozenset((m, -v) for m, v in c[1].items()))
                    got = self.known_canon.get(nk)
                    if got is not None:
                        self.known[sb.id] = not got
                        return not got
                self._pending_canon = ck
        if sb.op == 'and' and len(sb.args) <= 3:
            # evaluate conjuncts one by one (same truth value, fewer composite literals)
            for a in sb.args:
                if not self.decide(a):
                    return False
            return True
        if sb.op == 'or' and len(sb.args) <= 3:
            for a in sb.args:
                if self.decide(a):
                    return True
            return False
        if sb.op in ('and', 'or'):
            # wide conjunctions / disjunctions (allclose, array_equal over many cells) are ONE decision: splitting them
            # conjunct by conjunct multiplies the paths without telling the obligations anything they use
            decided = [self.known.get(a.id) for a in sb.args]
            if sb.op == 'and' and any(d is False for d in decided):
                return False
            if sb.op == 'or' and any(d is True for d in decided):
                return True
            if all(d is not None for d in decided):
                return all(decided) if sb.op == 'and' else any(decided)
        if sb.op == 'not':
            return not self.decide(sb.args[0])
        if self.pos < len(self.decisions):
            val = self.decisions[self.pos]
            self.pos += 1
        else:
            val = self._new_decision(sb)
        lit = sb if val else snot(sb)
        self.pc.append(lit)
        ck = getattr(self, '_pending_canon', None)
        if ck is not None:
            self.known_canon[ck] = val
            self._pending_canon = None
        self.known[sb.id] = val
        self.known[snot(sb).id] = not val
        if sb.op == 'and' and val:
            for a in sb.args:
                self.known[a.id] = True
                self.known[snot(a).id] = False
        if sb.op == 'or' and not val:
            for a in sb.args:
                self.known[a.id] = False
                self.known[snot(a).id] = True
        self._filter_live(lit)
        self.trace.append((T.show(lit, 4), _caller_site()))
        return val

    def _new_decision(self, sb):
        ex = self.ex
        t_ok = f_ok = None
        n_t = n_f = 0
        for s in self.live:
            try:
                if truth_level(sb, s, 0.0):
                    n_t += 1
                else:
                    n_f += 1
            except (EvalUndefined, OverflowError, ZeroDivisionError, ValueError):
                pass
        if n_t:
            t_ok = True
        if n_f:
            f_ok = True
        if t_ok is None:
            t_ok = self._feasible(sb)
        if f_ok is None:
            f_ok = self._feasible(snot(sb))
        if t_ok and f_ok:
            if len(self.decisions) >= ex.max_depth:
                raise PathLimit("decision depth %d exceeded" % ex.max_depth)
            self.alternatives.append(self.decisions[:self.pos] + [False])
            self.decisions.append(True)
            self.pos += 1
            return True
        if not t_ok and not f_ok:
            # the path so far is itself infeasible (an earlier unknown); cut it
            raise AssumeFalse('both branches infeasible')
        val = bool(t_ok)
        self.decisions.append(val)
        self.pos += 1
        self.n_forced += 1
        return val

    def _feasible(self, lit):
        ex = self.ex
        st, env = solve.z3_sat(list(self.all_hyps()) + [lit], timeout_s=ex.feas_timeout, alg=ex.alg)
        if st == 'unsat':
            return False
        if st == 'sat' and env is not None:
            # keep the model as an extra sample if it is genuine under float evaluation
            try:
                se = SampleEval({k: float(v) for k, v in env.items()})
                lv = min([truth_level(h, se) for h in self.all_hyps()] + [truth_level(lit, se)])
                if lv:
                    ex.samples.append(se)
                    self.live.append(se)
                    if lv == 1:
                        self.loose.add(id(se))
            except (EvalUndefined, OverflowError, ZeroDivisionError):
                pass
        return True


def _caller_site():
    import sys
    f = sys._getframe(2)
    while f is not None:
        fn = f.f_code.co_filename
        if '/pyvc/' not in fn and 'numpy' not in fn and '<' not in fn[:1]:
            return '%s:%d' % (fn.split('/')[-1], f.f_lineno)
        f = f.f_back
    return '?'


class Explorer:
    def __init__(self, samples=(), max_paths=400, max_depth=60, feas_timeout=3.0, alg=None):
        self.alg = alg
        self.samples = [SampleEval(e) for e in samples]
        self.max_paths = max_paths
        self.max_depth = max_depth
        self.feas_timeout = feas_timeout
        self.assumption_notes = set()
        self.paths = []
        self.ent_cache = {}

    def run(self, body, on_path=None):
        """body(ctx) executes one path (build inputs, call, ensures); on_path(ctx) is called while the
        path's scoped algebra rules are still active.  Returns list of PathCtx."""
        pending = [[]]
        done = []
        while pending:
            if len(done) >= self.max_paths:
                raise PathLimit("more than %d paths" % self.max_paths)
            dec = pending.pop()
            ctx = PathCtx(self, dec)
            T.CTX[0] = ctx
            if self.alg is not None:
                self.alg.push()
                self.alg.oracle = ctx.entails
            try:
                try:
                    try:
                        body(ctx)
                    except AssumeFalse:
                        ctx.cut = True
                finally:
                    T.CTX[0] = None
                if on_path is not None:
                    on_path(len(done), ctx)
            finally:
                if self.alg is not None:
                    self.alg.pop()
            pending.extend(ctx.alternatives)
            done.append(ctx)
        self.paths = done
        return done
