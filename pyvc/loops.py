"""Rewrite T5: loops named by a contract are cut with the invariant rule (partial correctness).

    while C: B            becomes            L = enter(key, locals())            # Inv on entry: obligations
                                             if L.step():                        # path (a): an arbitrary iteration
                                                 <mod(B)> = L.havoc(<mod(B)>)
                                                 L.assume_inv(locals()); if not C: L.infeasible()
                                                 B
                                                 L.end_iter(locals())            # Inv preserved: obligations; path ends
                                             else:                               # path (b): after the loop
                                                 <mod(B)> = L.havoc(<mod(B)>)
                                                 L.assume_inv(locals()); if C: L.infeasible()
mod(B) = the names assigned in B (including bases of subscript assignments).  `break`/`continue` directly inside a
cut loop are not supported (none of the loops cut so far uses them).
"""
import ast
import numpy as _np
from . import terms as T
from .terms import SR, SB
from .explore import AssumeFalse

SPECS = {}       # key -> LoopSpec


class CutPath(AssumeFalse):
    """the path ends here by construction of the cut rule (its obligations stay)"""


class LoopSpec:
    def __init__(self, inv, havoc=None, name=''):
        self.inv = inv            # callable(locals dict) -> list of (clause name, SB)
        self.havoc = havoc        # optional callable(var name, old value, ctx) -> new value
        self.name = name


def register(modname, qualname, ordinal, spec):
    from . import loader
    loader.LOOP_CUTS.setdefault(modname, {}).setdefault(qualname, {})[ordinal] = spec
    SPECS['%s:%s#%d' % (modname, qualname, ordinal)] = spec


def _assigned_names(stmts):
    names = []

    def add(n):
        if n not in names:
            names.append(n)

    class V(ast.NodeVisitor):
        def visit_Name(self, node):
            if isinstance(node.ctx, ast.Store):
                add(node.id)

        def visit_Subscript(self, node):
            if isinstance(node.ctx, ast.Store):
                base = node.value
                while isinstance(base, (ast.Subscript, ast.Attribute)):
                    base = base.value
                if isinstance(base, ast.Name):
                    add(base.id)
            self.generic_visit(node)

        def visit_AugAssign(self, node):
            t = node.target
            while isinstance(t, (ast.Subscript, ast.Attribute)):
                t = t.value
            if isinstance(t, ast.Name):
                add(t.id)
            self.generic_visit(node)
    for s in stmts:
        V().visit(s)
    return names


def cut_loops(func_node, cuts, qual, log, modname=None):
    """replace the while-loops of func_node whose ordinal is in cuts"""
    counter = [0]

    class R(ast.NodeTransformer):
        def visit_FunctionDef(self, node):
            if node is not func_node:
                return node         # nested functions keep their loops
            self.generic_visit(node)
            return node

        def visit_While(self, node):
            k = counter[0]
            counter[0] += 1
            self.generic_visit(node)
            if k not in cuts:
                return node
            for n in ast.walk(node):
                if isinstance(n, (ast.Break, ast.Continue)):
                    raise RuntimeError("loop cut: break/continue inside %s loop %d is not supported" % (qual, k))
            key = '%s#%d' % (qual, k)
            mods = _assigned_names(node.body)
            fp = ast.unparse(node.test)[:80]
            log.append('T5 %s: while-loop %d (`%s`) cut with the invariant rule; havoc %s' % (qual, k, fp, mods))
            tgt = ast.Tuple(elts=[ast.Name(id=m, ctx=ast.Store()) for m in mods], ctx=ast.Store())
            src = ast.Tuple(elts=[ast.Name(id=m, ctx=ast.Load()) for m in mods], ctx=ast.Load())
            names = ast.Tuple(elts=[ast.Constant(value=m) for m in mods], ctx=ast.Load())

            def call(meth, *args):
                return ast.Call(func=ast.Attribute(value=ast.Name(id='__pyvc_L', ctx=ast.Load()), attr=meth, ctx=ast.Load()),
                                args=list(args), keywords=[])

            def havoc_stmt():
                return ast.Assign(targets=[tgt], value=call('havoc', names, ast.Call(func=ast.Name(id='locals', ctx=ast.Load()), args=[], keywords=[])))
            loc = ast.Call(func=ast.Name(id='locals', ctx=ast.Load()), args=[], keywords=[])
            enter = ast.Assign(targets=[ast.Name(id='__pyvc_L', ctx=ast.Store())],
                               value=ast.Call(func=ast.Attribute(value=ast.Name(id='__pyvc_loops', ctx=ast.Load()), attr='enter', ctx=ast.Load()),
                                              args=[ast.Constant(value=key), ast.Constant(value=fp), loc], keywords=[]))
            step_body = [havoc_stmt(), ast.Expr(call('assume_inv', loc)),
                         ast.If(test=ast.UnaryOp(op=ast.Not(), operand=node.test), body=[ast.Expr(call('infeasible'))], orelse=[])]
            step_body += node.body
            step_body += [ast.Expr(call('end_iter', loc))]
            import copy
            exit_body = [havoc_stmt(), ast.Expr(call('assume_inv', loc)),
                         ast.If(test=copy.deepcopy(node.test), body=[ast.Expr(call('infeasible'))], orelse=[])]
            branch = ast.If(test=call('step'), body=step_body, orelse=exit_body)
            imp = ast.ImportFrom(module='pyvc', names=[ast.alias(name='loops', asname='__pyvc_loops')], level=0)
            return [imp, enter, branch]
    new = R().visit(func_node)
    ast.fix_missing_locations(new)
    return new


class _Loop:
    def __init__(self, key, spec, fingerprint):
        self.key = key
        self.spec = spec
        self.ctx = T.ctx()
        self.fp = fingerprint

    def _inv(self, loc):
        return list(self.spec.inv(dict(loc)))

    def step(self):
        c = self.ctx
        k = c.fresh_id('loopfork')
        return bool(T.bvar('loop_%s_arbitrary_iteration_%d' % (self.key.replace('#', '_').replace('.', '_'), k)))

    def havoc(self, names, loc):
        out = []
        c = self.ctx
        for nm in names:
            old = loc.get(nm)
            if self.spec.havoc is not None:
                new = self.spec.havoc(nm, old, c)
                if new is not NotImplemented:
                    out.append(new)
                    continue
            out.append(default_havoc(nm, old, c))
        return tuple(out)

    def assume_inv(self, loc):
        for nm, cond in self._inv(loc):
            self.ctx.assume(cond, tag='loop invariant (assumed at an arbitrary iteration): ' + nm)

    def infeasible(self):
        raise AssumeFalse('loop condition')

    def end_iter(self, loc):
        for nm, cond in self._inv(loc):
            self.ctx.oblige('loop invariant preserved [%s]: %s' % (self.key, nm), cond, kind='invariant')
        raise CutPath('end of the arbitrary iteration')


def default_havoc(nm, old, c):
    k = c.fresh_id('hv')
    if isinstance(old, _np.ndarray):
        if old.dtype == object or old.dtype.kind in 'fiu':
            from . import npx
            r = _np.empty(old.shape, dtype=object)
            for idx in _np.ndindex(*old.shape):
                r[idx] = SR.var('hv%d_%s_%s' % (k, nm, '_'.join(map(str, idx))))
            return r.view(npx.SArr)
        return old
    if isinstance(old, SB) or isinstance(old, (bool, _np.bool_)):
        return T.bvar('hv%d_%s' % (k, nm))
    if isinstance(old, (SR, int, float, _np.integer, _np.floating)):
        return SR.var('hv%d_%s' % (k, nm))
    return old


def enter(key, fingerprint, loc):
    full = None
    for kk, spec in SPECS.items():
        if kk.endswith(':' + key):
            full = spec
            break
    if full is None:
        raise T.EngineError("loop cut without a registered invariant: %s" % key)
    L = _Loop(key, full, fingerprint)
    for nm, cond in L._inv(loc):
        L.ctx.oblige('loop invariant on entry [%s]: %s' % (key, nm), cond, kind='invariant')
    return L
