"""Back ends: z3 (primary), cvc5 (takes z3's unknowns), ring certificates checked by z3."""
import os
import time
import math
import subprocess
import tempfile
from fractions import Fraction
import z3

from .terms import (SR, SB, subterms, evaluate, EvalUndefined, EngineError, show, PI, TRUE, FALSE,
                    snot, sand, cmp, ZERO, ONE, add, neg, mul)
from . import terms as T
from .poly import Algebra, TooLarge, p_add, p_neg, p_mul, p_scale, solve_linear_combination

STATS = {'z3_calls': 0, 'z3_s': 0.0, 'cvc5_calls': 0, 'cvc5_s': 0.0, 'ring_calls': 0, 'ring_s': 0.0,
         'cert_checks': 0, 'cert_s': 0.0}

CVC5_BIN = '/usr/bin/cvc5'


# ------------------------------------------------------------------------------------------------
# z3 export

class Z3Export:
    """translate SR/SB DAGs to z3, collecting the defining axioms of the atoms that occur"""

    def __init__(self, small_angle=True):
        self.map = {}
        self.axioms = []
        self.axiom_names = set()
        self.vars = {}
        self.small_angle = small_angle
        self._trig = {}
        self.uf_decls = {}

    def real(self, name):
        v = self.vars.get(name)
        if v is None:
            v = z3.Real(name)
            self.vars[name] = v
            if name == 'pi':
                self.axioms.append(v > z3.RealVal('3.14159265358979'))
                self.axioms.append(v < z3.RealVal('3.14159265358980'))
                self.axiom_names.add('pi_bounds')
        return v

    def tr(self, term):
        m = self.map
        if term.id in m:
            return m[term.id]
        for n in subterms([term]):
            if n.id in m:
                continue
            m[n.id] = self._tr1(n)
        return m[term.id]

    def _tr1(self, n):
        m = self.map
        a = [m[x.id] for x in n.args]
        if isinstance(n, SR):
            op = n.op
            if op == 'c':
                f = n.extra
                return z3.RealVal(str(f.numerator)) / z3.RealVal(str(f.denominator)) if f.denominator != 1 \
                    else z3.RealVal(str(f.numerator))
            if op == 'v':
                return self.real(n.extra)
            if op == '+':
                return a[0] + a[1]
            if op == '*':
                return a[0] * a[1]
            if op == 'neg':
                return -a[0]
            if op == '/':
                q = z3.Real('q!%d' % n.id)
                self.axioms.append(q * a[1] == a[0])
                return q
            if op == 'ite':
                return z3.If(a[0], a[1], a[2])
            if op == 'uf':
                f = self.uf_decls.get((n.extra, len(a)))
                if f is None:
                    f = z3.Function(n.extra, *([z3.RealSort()] * (len(a) + 1)))
                    self.uf_decls[(n.extra, len(a))] = f
                return f(*a)
            if op == 'fn2':
                v = z3.Real('%s!%d' % (n.extra, n.id))
                if n.extra == 'arctan2':
                    pi = self.real('pi')
                    self.axioms.append(v <= pi)
                    self.axioms.append(v >= -pi)
                return v
            if op == 'fn':
                f = n.extra
                t = a[0]
                if f == 'abs':
                    return z3.If(t >= 0, t, -t)
                v = z3.Real('%s!%d' % (f, n.id))
                if f == 'sqrt':
                    self.axioms.append(v >= 0)
                    self.axioms.append(v * v == t)
                    self.axiom_names.add('sqrt_def')
                    # sqrt of a syntactic sum of squares bounds every summand: |x_i| <= sqrt(sum x_j^2)
                    sq = _squares_of_sum(n.args[0])
                    if sq and len(sq) > 1:
                        for x in sq:
                            xz = self.tr(x)
                            self.axioms.append(xz <= v)
                            self.axioms.append(-v <= xz)
                        self.axiom_names.add('abs_le_sqrt_sum_sq')
                elif f in ('sin', 'cos'):
                    key = n.args[0].id
                    d = self._trig.setdefault(key, {})
                    d[f] = v
                    if f == 'sin':
                        self.axioms.append(v <= 1)
                        self.axioms.append(v >= -1)
                        if self.small_angle:
                            self.axioms.append(z3.If(v >= 0, v, -v) <= z3.If(t >= 0, t, -t))
                            self.axiom_names.add('abs_sin_le_abs')
                        pi = self.real('pi')
                        self.axioms.append(z3.Implies(z3.And(t > 0, t < pi), v > 0))
                        self.axioms.append(z3.Implies(t == 0, v == 0))
                        self.axiom_names.add('sin_pos_of_pos_of_lt_pi')
                    else:
                        self.axioms.append(v <= 1)
                        self.axioms.append(v >= -1)
                        if self.small_angle:
                            self.axioms.append(v >= 1 - t * t / 2)
                            self.axiom_names.add('one_sub_sq_div_two_le_cos')
                        self.axioms.append(z3.Implies(t == 0, v == 1))
                    if 'sin' in d and 'cos' in d and not d.get('linked'):
                        d['linked'] = True
                        self.axioms.append(d['sin'] * d['sin'] + d['cos'] * d['cos'] == 1)
                        self.axiom_names.add('sin_sq_add_cos_sq')
                elif f == 'arccos':
                    pi = self.real('pi')
                    self.axioms.append(v >= 0)
                    self.axioms.append(v <= pi)
                    self.axioms.append((t == 1) == (v == 0))
                    self.axioms.append((t == -1) == (v == pi))
                    self.axioms.append((t > 0) == (v < pi / 2))
                    self.axiom_names.add('arccos_range')
                    arg = n.args[0]
                    if arg.op == 'fn' and arg.extra == 'cos':
                        inner = self.tr(arg.args[0])
                        self.axioms.append(z3.Implies(z3.And(inner >= 0, inner <= pi), v == inner))
                        self.axiom_names.add('arccos_cos')
                elif f == 'arcsin':
                    pi = self.real('pi')
                    self.axioms.append(v >= -pi / 2)
                    self.axioms.append(v <= pi / 2)
                elif f == 'floor':
                    k = z3.Int('k!%d' % n.id)
                    self.axioms.append(v == z3.ToReal(k))
                    self.axioms.append(v <= t)
                    self.axioms.append(t < v + 1)
                    self.axiom_names.add('floor_def')
                return v
            raise EngineError("z3 export: op %s" % op)
        else:
            op = n.op
            if op == 'T':
                return z3.BoolVal(True)
            if op == 'F':
                return z3.BoolVal(False)
            if op == '<':
                return a[0] < a[1]
            if op == '<=':
                return a[0] <= a[1]
            if op == '==':
                return a[0] == a[1]
            if op == 'not':
                return z3.Not(a[0])
            if op == 'and':
                return z3.And(*a)
            if op == 'or':
                return z3.Or(*a)
            if op == 'bv':
                return z3.Bool(n.extra)
            raise EngineError("z3 export: bool op %s" % op)


def _squares_of_sum(t):
    """if t is syntactically x1*x1 + x2*x2 + ... return [x1, x2, ...] else None"""
    out = []
    stack = [t]
    while stack:
        n = stack.pop()
        if n.op == '+':
            stack.extend(n.args)
        elif n.op == '*' and n.args[0] is n.args[1]:
            out.append(n.args[0])
        elif n.op == 'c' and n.extra >= 0:
            continue
        else:
            return None
    return out


def _model_env(model, ex):
    env = {}
    for name, v in ex.vars.items():
        val = model.eval(v, model_completion=True)
        env[name] = _z3num(val)
    return env


def _z3num(val):
    if z3.is_rational_value(val):
        return Fraction(val.numerator_as_long(), val.denominator_as_long())
    if z3.is_algebraic_value(val):
        a = val.approx(30)
        return Fraction(a.numerator_as_long(), a.denominator_as_long())
    if z3.is_int_value(val):
        return Fraction(val.as_long())
    try:
        return Fraction(str(val))
    except Exception:
        return Fraction(0)


def z3_check(hyps, goal, timeout_s=10.0, small_angle=True):
    """is  /\\hyps => goal  valid?  -> ('proved'|'cex'|'unknown', env_or_reason, smt2 text)"""
    ex = Z3Export(small_angle=small_angle)
    hs = [ex.tr(h) for h in hyps]
    g = ex.tr(goal)
    s = z3.Solver()
    s.set('timeout', int(timeout_s * 1000))
    for a in ex.axioms:
        s.add(a)
    for h in hs:
        s.add(h)
    s.add(z3.Not(g))
    t0 = time.time()
    r = s.check()
    STATS['z3_calls'] += 1
    STATS['z3_s'] += time.time() - t0
    if r == z3.unsat:
        return 'proved', sorted(ex.axiom_names), None
    if r == z3.sat:
        try:
            return 'cex', _model_env(s.model(), ex), None
        except Exception as e:  # pragma: no cover
            return 'unknown', 'model extraction failed: %r' % (e,), None
    return 'unknown', s.reason_unknown(), s


def z3_sat(constraints, timeout_s=5.0):
    """-> ('sat', env) | ('unsat', None) | ('unknown', reason)"""
    ex = Z3Export()
    cs = [ex.tr(c) for c in constraints]
    s = z3.Solver()
    s.set('timeout', int(timeout_s * 1000))
    for a in ex.axioms:
        s.add(a)
    for c in cs:
        s.add(c)
    t0 = time.time()
    r = s.check()
    STATS['z3_calls'] += 1
    STATS['z3_s'] += time.time() - t0
    if r == z3.unsat:
        return 'unsat', None
    if r == z3.sat:
        return 'sat', _model_env(s.model(), ex)
    return 'unknown', s.reason_unknown()


def cvc5_check_solver(solver, timeout_s=20.0):
    """run cvc5 on the assertions of a z3 solver -> 'unsat' | 'sat' | 'unknown'"""
    if not os.path.exists(CVC5_BIN):
        return 'unknown'
    txt = solver.to_smt2()
    # z3 prints (set-info :status ...) and no logic; cvc5 needs a logic
    txt = '(set-logic ALL)\n' + txt
    t0 = time.time()
    try:
        with tempfile.NamedTemporaryFile('w', suffix='.smt2', delete=False) as f:
            f.write(txt)
            path = f.name
        try:
            p = subprocess.run([CVC5_BIN, '--lang=smt2', '--tlimit=%d' % int(timeout_s * 1000), path],
                               capture_output=True, text=True, timeout=timeout_s + 5)
            out = p.stdout.strip().split('\n')[0] if p.stdout.strip() else ''
        finally:
            os.unlink(path)
    except subprocess.TimeoutExpired:
        out = ''
    STATS['cvc5_calls'] += 1
    STATS['cvc5_s'] += time.time() - t0
    if out in ('unsat', 'sat'):
        return out
    return 'unknown'


# ------------------------------------------------------------------------------------------------
# ring certificates

def poly_to_z3(p, genvar):
    terms = []
    for m, c in p.items():
        t = z3.RealVal(str(c.numerator)) / z3.RealVal(str(c.denominator)) if c.denominator != 1 \
            else z3.RealVal(str(c.numerator))
        for g, e in m:
            v = genvar(g)
            for _ in range(e):
                t = t * v
        terms.append(t)
    if not terms:
        return z3.RealVal(0)
    return z3.Sum(terms) if len(terms) > 1 else terms[0]


def z3_check_certificate(alg, num, nf, cert, extra=None, max_terms=6000):
    """z3 re-checks  num == nf + sum_r q_r (lhs_r - rhs_r) [+ sum c_k h_k]  as a pure polynomial identity.
    For very large certificates the identity is split monomial-wise by z3's own normaliser."""
    t0 = time.time()
    gv = {}

    def genvar(g):
        v = gv.get(g)
        if v is None:
            v = z3.Real('g%d' % g)
            gv[g] = v
        return v
    size = len(num) + len(nf) + sum(len(q) for q in cert.values())
    if size > max_terms:
        STATS['cert_checks'] += 1
        return 'skipped-large'
    rhs = poly_to_z3(nf, genvar)
    for key, q in cert.items():
        h = alg.rule_lhs_minus_rhs(key)
        rhs = rhs + poly_to_z3(q, genvar) * poly_to_z3(h, genvar)
    if extra:
        for c, h in extra:
            rhs = rhs + poly_to_z3(p_scale(h, c), genvar)
    lhs = poly_to_z3(num, genvar)
    d = z3.simplify(lhs - rhs, som=True, hoist_mul=False)
    ok = z3.is_rational_value(d) and d.numerator_as_long() == 0
    if not ok:
        s = z3.Solver()
        s.set('timeout', 20000)
        s.add(lhs != rhs)
        ok = s.check() == z3.unsat
    STATS['cert_checks'] += 1
    STATS['cert_s'] += time.time() - t0
    return 'ok' if ok else 'rejected'


class RingResult:
    __slots__ = ('status', 'detail', 'nf', 'alg')

    def __init__(self, status, detail, nf=None, alg=None):
        self.status = status
        self.detail = detail
        self.nf = nf
        self.alg = alg


def ring_prove_eq(alg, a, b, eq_hyps=(), check_cert=True):
    """try to prove a == b by normal-form reduction.  eq_hyps: list of (lhs, rhs) SR pairs usable as a
    rational linear combination.  -> RingResult(status in proved/nonzero/toolarge)"""
    t0 = time.time()
    STATS['ring_calls'] += 1
    try:
        nf, cert, num, den = alg.nf_diff(a, b, want_cert=check_cert)
        if not nf:
            if check_cert and cert:
                r = z3_check_certificate(alg, num, nf, cert)
                if r == 'rejected':
                    raise EngineError("z3 rejected a ring certificate (engine bug)")
                return RingResult('proved', 'ring-nf' + ('+z3cert' if r == 'ok' else '(cert too large for z3: %s)' % r))
            return RingResult('proved', 'ring-nf(no rules needed)')
        if eq_hyps:
            hp = []
            for (l, r) in eq_hyps:
                hn, _, _, hd = alg.nf_diff(l, r)
                if hn:
                    hp.append(hn)
            if hp and len(nf) < 3000:
                sol = solve_linear_combination(nf, hp)
                if sol is not None:
                    return RingResult('proved', 'ring-nf+lincomb(%d hyps)' % len(hp))
        return RingResult('nonzero', alg.show_poly(nf), nf, alg)
    except TooLarge as e:
        return RingResult('toolarge', str(e))
    finally:
        STATS['ring_s'] += time.time() - t0
