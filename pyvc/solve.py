"""Back ends: z3 (primary), cvc5 (takes z3's unknowns), ring certificates checked by z3."""
import os
import time
import math
import subprocess
import tempfile
from fractions import Fraction
import z3

from .terms import (SR, SB, subterms, evaluate, EvalUndefined, EngineError, show, PI, TRUE, FALSE,
                    snot, sand, cmp, ZERO, ONE, add, neg, mul)
from . import terms as T
from .poly import Algebra, TooLarge, p_add, p_neg, p_mul, p_scale, solve_linear_combination

STATS = {'z3_calls': 0, 'z3_s': 0.0, 'cvc5_calls': 0, 'cvc5_s': 0.0, 'ring_calls': 0, 'ring_s': 0.0,
         'cert_checks': 0, 'cert_s': 0.0}

CVC5_BIN = '/usr/bin/cvc5'


# ------------------------------------------------------------------------------------------------
# z3 export

class Z3Export:
    """translate SR/SB DAGs to z3, collecting the defining axioms of the atoms that occur"""

    def __init__(self, small_angle=True):
        self.map = {}
        self.axioms = []
        self.axiom_names = set()
        self.vars = {}
        self.small_angle = small_angle
        self._trig = {}
        self.uf_decls = {}
        self.bvars = {}

    def real(self, name):
        v = self.vars.get(name)
        if v is None:
            v = z3.Real(name)
            self.vars[name] = v
            if name == 'pi':
                self.axioms.append(v > z3.RealVal('3.14159265358979'))
                self.axioms.append(v < z3.RealVal('3.14159265358980'))
                self.axiom_names.add('pi_bounds')
        return v

    def tr(self, term):
        m = self.map
        if term.id in m:
            return m[term.id]
        for n in subterms([term]):
            if n.id in m:
                continue
            m[n.id] = self._tr1(n)
        return m[term.id]

    def _tr1(self, n):
        m = self.map
        a = [m[x.id] for x in n.args]
        if isinstance(n, SR):
            op = n.op
            if op == 'c':
                f = n.extra
                return z3.RealVal(str(f.numerator)) / z3.RealVal(str(f.denominator)) if f.denominator != 1 \
                    else z3.RealVal(str(f.numerator))
            if op == 'v':
                return self.real(n.extra)
            if op == '+':
                return a[0] + a[1]
            if op == '*':
                return a[0] * a[1]
            if op == 'neg':
                return -a[0]
            if op == '/':
                q = z3.Real('q!%d' % n.id)
                self.axioms.append(q * a[1] == a[0])
                return q
            if op == 'ite':
                return z3.If(a[0], a[1], a[2])
            if op == 'uf':
                f = self.uf_decls.get((n.extra, len(a)))
                if f is None:
                    f = z3.Function(n.extra, *([z3.RealSort()] * (len(a) + 1)))
                    self.uf_decls[(n.extra, len(a))] = f
                return f(*a)
            if op == 'fn2':
                v = z3.Real('%s!%d' % (n.extra, n.id))
                if n.extra == 'arctan2':
                    pi = self.real('pi')
                    self.axioms.append(v <= pi)
                    self.axioms.append(v >= -pi)
                return v
            if op == 'fn':
                f = n.extra
                t = a[0]
                if f == 'abs':
                    return z3.If(t >= 0, t, -t)
                v = z3.Real('%s!%d' % (f, n.id))
                if f == 'sqrt':
                    self.axioms.append(v >= 0)
                    self.axioms.append(v * v == t)
                    self.axiom_names.add('sqrt_def')
                    # sqrt of a syntactic sum of squares bounds every summand: |x_i| <= sqrt(sum x_j^2)
                    sq = _squares_of_sum(n.args[0])
                    if sq and len(sq) > 1:
                        for x in sq:
                            xz = self.tr(x)
                            self.axioms.append(xz <= v)
                            self.axioms.append(-v <= xz)
                        self.axiom_names.add('abs_le_sqrt_sum_sq')
                elif f in ('sin', 'cos'):
                    key = n.args[0].id
                    d = self._trig.setdefault(key, {})
                    d[f] = v
                    if f == 'sin':
                        self.axioms.append(v <= 1)
                        self.axioms.append(v >= -1)
                        if self.small_angle:
                            self.axioms.append(z3.If(v >= 0, v, -v) <= z3.If(t >= 0, t, -t))
                            self.axiom_names.add('abs_sin_le_abs')
                        pi = self.real('pi')
                        self.axioms.append(z3.Implies(z3.And(t > 0, t < pi), v > 0))
                        self.axioms.append(z3.Implies(t == 0, v == 0))
                        self.axiom_names.add('sin_pos_of_pos_of_lt_pi')
                    else:
                        self.axioms.append(v <= 1)
                        self.axioms.append(v >= -1)
                        if self.small_angle:
                            self.axioms.append(v >= 1 - t * t / 2)
                            self.axiom_names.add('one_sub_sq_div_two_le_cos')
                        self.axioms.append(z3.Implies(t == 0, v == 1))
                        pi = self.real('pi')
                        self.axioms.append(z3.Implies(z3.And(2 * t > -pi, 2 * t < pi), v > 0))
                        self.axiom_names.add('cos_pos_of_mem_Ioo')
                    if 'sin' in d and 'cos' in d and not d.get('linked'):
                        d['linked'] = True
                        self.axioms.append(d['sin'] * d['sin'] + d['cos'] * d['cos'] == 1)
                        self.axiom_names.add('sin_sq_add_cos_sq')
                elif f == 'tan':
                    from .terms import fn as _fn
                    sn, cs = self.tr(_fn('sin', n.args[0])), self.tr(_fn('cos', n.args[0]))
                    self.axioms.append(v * cs == sn)
                elif f == 'arccos':
                    pi = self.real('pi')
                    self.axioms.append(v >= 0)
                    self.axioms.append(v <= pi)
                    self.axioms.append((t == 1) == (v == 0))
                    self.axioms.append((t == -1) == (v == pi))
                    self.axioms.append((t > 0) == (v < pi / 2))
                    self.axioms.append(t >= 1 - v * v / 2)
                    self.axiom_names.add('arccos_range')
                    arg = n.args[0]
                    if arg.op == 'fn' and arg.extra == 'cos':
                        inner = self.tr(arg.args[0])
                        self.axioms.append(z3.Implies(z3.And(inner >= 0, inner <= pi), v == inner))
                        self.axiom_names.add('arccos_cos')
                elif f == 'arcsin':
                    pi = self.real('pi')
                    self.axioms.append(v >= -pi / 2)
                    self.axioms.append(v <= pi / 2)
                elif f == 'floor':
                    k = z3.Int('k!%d' % n.id)
                    self.axioms.append(v == z3.ToReal(k))
                    self.axioms.append(v <= t)
                    self.axioms.append(t < v + 1)
                    self.axiom_names.add('floor_def')
                return v
            raise EngineError("z3 export: op %s" % op)
        else:
            op = n.op
            if op == 'T':
                return z3.BoolVal(True)
            if op == 'F':
                return z3.BoolVal(False)
            if op == '<':
                return a[0] < a[1]
            if op == '<=':
                return a[0] <= a[1]
            if op == '==':
                return a[0] == a[1]
            if op == 'not':
                return z3.Not(a[0])
            if op == 'and':
                return z3.And(*a)
            if op == 'or':
                return z3.Or(*a)
            if op == 'bv':
                b = z3.Bool(n.extra)
                self.bvars[n.extra] = b
                return b
            raise EngineError("z3 export: bool op %s" % op)


class PolyExport:
    """canonical export: literals become polynomial (in)equalities over the generators of an Algebra;
    atom generators get their defining axioms (instantiated only for atoms that occur)."""

    def __init__(self, alg, small_angle=True):
        self.alg = alg
        self.gv = {}
        self.axioms = []
        self.axiom_names = set()
        self.small_angle = small_angle
        self.vars = {}        # input symbol name -> z3 var (for models)
        self.uf_decls = {}
        self._trig = {}
        self._lit_cache = {}
        self.bvars = {}

    def gen(self, g):
        v = self.gv.get(g)
        if v is not None:
            return v
        alg = self.alg
        node = alg.node_of_gen.get(g)
        if node is not None and node.op == 'v':
            v = z3.Real(node.extra)
            self.vars[node.extra] = v
            self.gv[g] = v
            self._rule_axioms(g, v)
            if node.extra == 'pi':
                self.axioms.append(v > z3.RealVal('3.14159265358979'))
                self.axioms.append(v < z3.RealVal('3.14159265358980'))
                self.axiom_names.add('pi_bounds')
            return v
        v = z3.Real('g%d' % g)
        self.gv[g] = v
        self._rule_axioms(g, v)
        if g in alg.den_poly:
            self.axioms.append(v == self.poly(alg.den_poly[g]))
            return v
        info = alg.atom_info.get(g)
        if info is not None:
            self._atom_axioms(g, v, info)
        elif node is not None and node.op == 'ite':
            c = self.lit(node.args[0])
            a = self.value(alg.rf(node.args[1]))
            b = self.value(alg.rf(node.args[2]))
            self.axioms.append(v == z3.If(c, a, b))
        return v

    def _rule_axioms(self, g, v):
        """the oriented equations used by the normaliser are facts the solver must also know (they were
        eliminated from the canonical polynomials)"""
        alg = self.alg
        info = alg.atom_info.get(g)
        is_atom_rule = info is not None and info[0] in ('sqrt', 'abs', 'sin', 'cos')
        if g in alg.rules_lin:
            self.axioms.append(v == self.poly(alg.rules_lin[g]))
        if g in alg.rules_sq and not (is_atom_rule and info[0] in ('sqrt', 'abs')):
            self.axioms.append(v * v == self.poly(alg.rules_sq[g]))
        for (a, b), rhs in alg.rules_prod.items():
            if g in (a, b):
                other = b if g == a else a
                if other in self.gv:
                    self.axioms.append(self.gv[a] * self.gv[b] == self.poly(rhs))

    def poly(self, p):
        terms = []
        for m, c in p.items():
            t = z3.RealVal(str(c.numerator)) / z3.RealVal(str(c.denominator)) if c.denominator != 1 \
                else z3.RealVal(str(c.numerator))
            for g, e in m:
                v = self.gen(g)
                for _ in range(e):
                    t = t * v
            terms.append(t)
        if not terms:
            return z3.RealVal(0)
        return z3.Sum(terms) if len(terms) > 1 else terms[0]

    def den(self, d):
        t = None
        for g, e in d.items():
            v = self.gen(g)
            for _ in range(e):
                t = v if t is None else t * v
        return t

    def value(self, rf):
        """z3 term equal to N/D (an auxiliary variable when D is not empty)"""
        num, den = rf
        n = self.poly(num)
        if not den:
            return n
        key = ('val', frozenset(num.items()), frozenset(den.items()))
        v = self._lit_cache.get(key)
        if v is None:
            v = z3.Real('q!%d' % len(self._lit_cache))
            self._lit_cache[key] = v
            self.axioms.append(v * self.den(den) == n)
        return v

    def _atom_axioms(self, g, v, info):
        fname, argrfs = info
        A = self.axioms
        if fname.startswith('uf:'):
            args = [self.value(r) for r in argrfs]
            f = self.uf_decls.get((fname, len(args)))
            if f is None:
                f = z3.Function(fname[3:], *([z3.RealSort()] * (len(args) + 1)))
                self.uf_decls[(fname, len(args))] = f
            A.append(v == f(*args))
            return
        if fname == 'arctan2':
            pi = self.gen(self.alg.gen_for_var(T.PI))
            A.append(v <= pi)
            A.append(v >= -pi)
            return
        if len(argrfs) != 1:
            return
        num, den = argrfs[0]
        if fname == 'sqrt':
            A.append(v >= 0)
            if den:
                A.append(v * v * self.den(den) == self.poly(num))
            else:
                A.append(v * v == self.poly(num))
                # sum of squares: every square summand is bounded by the root
                if len(num) > 1 and all(c > 0 and all(e % 2 == 0 for _, e in m) for m, c in num.items()):
                    for m, c in num.items():
                        rn, rd = math.isqrt(c.numerator), math.isqrt(c.denominator)
                        if rn * rn == c.numerator and rd * rd == c.denominator and m:
                            t = z3.RealVal(rn) / z3.RealVal(rd)
                            for gg, e in m:
                                for _ in range(e // 2):
                                    t = t * self.gen(gg)
                            A.append(t <= v)
                            A.append(-v <= t)
                    self.axiom_names.add('abs_le_sqrt_sum_sq')
            self.axiom_names.add('sqrt_def')
            return
        t = self.value(argrfs[0])
        if fname == 'abs':
            A.append(v == z3.If(t >= 0, t, -t))
            return
        if fname in ('sin', 'cos'):
            key = (p_key_(num), frozenset(den.items()))
            d = self._trig.setdefault(key, {})
            d[fname] = v
            A.append(v <= 1)
            A.append(v >= -1)
            if fname == 'sin':
                if self.small_angle:
                    A.append(z3.If(v >= 0, v, -v) <= z3.If(t >= 0, t, -t))
                    self.axiom_names.add('abs_sin_le_abs')
                pi = self.gen(self.alg.gen_for_var(T.PI))
                A.append(z3.Implies(z3.And(t > 0, t < pi), v > 0))
                A.append(z3.Implies(t == 0, v == 0))
                self.axiom_names.add('sin_pos_of_pos_of_lt_pi')
            else:
                if self.small_angle:
                    A.append(v >= 1 - t * t / 2)
                    self.axiom_names.add('one_sub_sq_div_two_le_cos')
                A.append(z3.Implies(t == 0, v == 1))
                pi = self.gen(self.alg.gen_for_var(T.PI))
                A.append(z3.Implies(z3.And(2 * t > -pi, 2 * t < pi), v > 0))
                self.axiom_names.add('cos_pos_of_mem_Ioo')
                # the partner sine
                sg = self.alg.sincos.get(key, {}).get('sin')
                if sg is not None:
                    self.gen(sg)
            if 'sin' in d and 'cos' in d and not d.get('linked'):
                d['linked'] = True
                A.append(d['sin'] * d['sin'] + d['cos'] * d['cos'] == 1)
                self.axiom_names.add('sin_sq_add_cos_sq')
            return
        if fname == 'arccos':
            pi = self.gen(self.alg.gen_for_var(T.PI))
            A.append(v >= 0)
            A.append(v <= pi)
            A.append((t == 1) == (v == 0))
            A.append((t == -1) == (v == pi))
            A.append((t > 0) == (v < pi / 2))
            A.append(t >= 1 - v * v / 2)
            self.axiom_names.add('arccos_range')
            # arccos(cos x) = x on [0, pi]
            if not den and p_is_monomial_(num):
                (m, c), = num.items()
                if c == 1 and len(m) == 1 and m[0][1] == 1:
                    inner = self.alg.atom_info.get(m[0][0])
                    if inner is not None and inner[0] == 'cos':
                        x = self.value(inner[1][0])
                        A.append(z3.Implies(z3.And(x >= 0, x <= pi), v == x))
                        self.axiom_names.add('arccos_cos')
            return
        if fname == 'arcsin':
            pi = self.gen(self.alg.gen_for_var(T.PI))
            A.append(v >= -pi / 2)
            A.append(v <= pi / 2)
            return
        if fname == 'floor':
            k = z3.Int('k!%d' % g)
            A.append(v == z3.ToReal(k))
            A.append(v <= t)
            A.append(t < v + 1)
            self.axiom_names.add('floor_def')
            return

    def lit(self, sb):
        r = self._lit_cache.get(sb.id)
        if r is not None:
            return r
        op = sb.op
        if op == 'T':
            r = z3.BoolVal(True)
        elif op == 'F':
            r = z3.BoolVal(False)
        elif op in ('<', '<=', '=='):
            c = self.alg.canon_cmp(op, sb.args[0], sb.args[1])
            if c is True or c is False:
                r = z3.BoolVal(c)
            else:
                cop, p = c
                e = self.poly(p)
                r = (e < 0) if cop == '<' else ((e <= 0) if cop == '<=' else (e == 0))
        elif op == 'not':
            r = z3.Not(self.lit(sb.args[0]))
        elif op == 'and':
            r = z3.And(*[self.lit(a) for a in sb.args])
        elif op == 'or':
            r = z3.Or(*[self.lit(a) for a in sb.args])
        elif op == 'bv':
            r = z3.Bool(sb.extra)
            self.bvars[sb.extra] = r
        else:
            raise EngineError("PolyExport: bool op %s" % op)
        self._lit_cache[sb.id] = r
        return r

    def model_env(self, model):
        env = {}
        for name, v in self.vars.items():
            env[name] = _z3num(model.eval(v, model_completion=True))
        for name, b in self.bvars.items():
            env[name] = 1 if z3.is_true(model.eval(b, model_completion=True)) else 0
        return complete_env(self.alg, env)[0]


def complete_env(alg, env, all_signs=False):
    """input symbols eliminated by rewrite rules (x -> P, x^2 -> P) do not occur in the exported problem;
    reconstruct their values from the rule.  Returns a list of candidate assignments (sign choices)."""
    import itertools
    env = dict(env)
    missing_lin, missing_sq = [], []
    for g, node in alg.node_of_gen.items():
        if node is None or node.op != 'v' or node.extra in env:
            continue
        if g in alg.rules_lin:
            missing_lin.append((g, node.extra))
        elif g in alg.rules_sq:
            missing_sq.append((g, node.extra))
        elif node.extra != 'pi':
            env[node.extra] = Fraction(0)

    def val_of(p, e):
        tot = 0.0
        for m, c in p.items():
            t = float(c)
            for gg, ee in m:
                nd = alg.node_of_gen.get(gg)
                if nd is None or nd.op != 'v':
                    raise KeyError(gg)
                if nd.extra == 'pi' and 'pi' not in e:
                    t *= math.pi ** ee
                else:
                    t *= float(e[nd.extra]) ** ee
            tot += t
        return tot
    outs = []
    signs = list(itertools.product([1, -1], repeat=min(len(missing_sq), 3))) if missing_sq else [()]
    for sg in signs:
        e = dict(env)
        ok = True
        for _ in range(3):
            for g, name in missing_sq:
                if name in e:
                    continue
                try:
                    v = val_of(alg.rules_sq[g], e)
                except KeyError:
                    continue
                i = [n for _, n in missing_sq].index(name)
                e[name] = (sg[i] if i < len(sg) else 1) * math.sqrt(max(0.0, v))
            for g, name in missing_lin:
                if name in e:
                    continue
                try:
                    e[name] = val_of(alg.rules_lin[g], e)
                except KeyError:
                    continue
        outs.append(e)
        if not all_signs:
            break
    return outs


def p_key_(p):
    return frozenset(p.items())


def p_is_monomial_(p):
    return len(p) == 1


def _squares_of_sum(t):
    """if t is syntactically x1*x1 + x2*x2 + ... return [x1, x2, ...] else None"""
    out = []
    stack = [t]
    while stack:
        n = stack.pop()
        if n.op == '+':
            stack.extend(n.args)
        elif n.op == '*' and n.args[0] is n.args[1]:
            out.append(n.args[0])
        elif n.op == 'c' and n.extra >= 0:
            continue
        else:
            return None
    return out


def _model_env(model, ex):
    env = {}
    for name, v in ex.vars.items():
        val = model.eval(v, model_completion=True)
        env[name] = _z3num(val)
    for name, b in getattr(ex, 'bvars', {}).items():
        env[name] = 1 if z3.is_true(model.eval(b, model_completion=True)) else 0
    return env


INEXACT = [False]


def _z3num(val):
    if z3.is_algebraic_value(val):
        INEXACT[0] = True
    if z3.is_rational_value(val):
        return Fraction(val.numerator_as_long(), val.denominator_as_long())
    if z3.is_algebraic_value(val):
        a = val.approx(30)
        return Fraction(a.numerator_as_long(), a.denominator_as_long())
    if z3.is_int_value(val):
        return Fraction(val.as_long())
    try:
        return Fraction(str(val))
    except Exception:
        return Fraction(0)


def _export(alg, hyps, goal, small_angle=True):
    if alg is not None:
        try:
            ex = PolyExport(alg, small_angle=small_angle)
            hs = [ex.lit(h) for h in hyps]
            g = ex.lit(goal) if goal is not None else None
            return ex, hs, g, ex.model_env
        except TooLarge:
            pass
    ex = Z3Export(small_angle=small_angle)
    hs = [ex.tr(h) for h in hyps]
    g = ex.tr(goal) if goal is not None else None
    return ex, hs, g, lambda m: _model_env(m, ex)


def z3_check(hyps, goal, timeout_s=10.0, small_angle=True, alg=None):
    """is  /\\hyps => goal  valid?  -> ('proved'|'cex'|'unknown', env_or_reason, solver)"""
    ex, hs, g, menv = _export(alg, hyps, goal, small_angle)
    s = z3.Solver()
    s.set('timeout', int(timeout_s * 1000))
    for a in ex.axioms:
        s.add(a)
    for h in hs:
        s.add(h)
    s.add(z3.Not(g))
    t0 = time.time()
    r = s.check()
    STATS['z3_calls'] += 1
    STATS['z3_s'] += time.time() - t0
    if r == z3.unsat:
        return 'proved', sorted(ex.axiom_names), None
    if r == z3.sat:
        try:
            return 'cex', menv(s.model()), None
        except Exception as e:  # pragma: no cover
            return 'unknown', 'model extraction failed: %r' % (e,), None
    return 'unknown', s.reason_unknown(), s


def z3_sat(constraints, timeout_s=5.0, alg=None):
    """-> ('sat', env) | ('unsat', None) | ('unknown', reason)"""
    ex, cs, _, menv = _export(alg, constraints, None)
    s = z3.Solver()
    s.set('timeout', int(timeout_s * 1000))
    for a in ex.axioms:
        s.add(a)
    for c in cs:
        s.add(c)
    t0 = time.time()
    r = s.check()
    STATS['z3_calls'] += 1
    STATS['z3_s'] += time.time() - t0
    if r == z3.unsat:
        return 'unsat', None
    if r == z3.sat:
        return 'sat', menv(s.model())
    return 'unknown', s.reason_unknown()


def cvc5_check_solver(solver, timeout_s=20.0):
    """run cvc5 on the assertions of a z3 solver -> 'unsat' | 'sat' | 'unknown'"""
    if not os.path.exists(CVC5_BIN):
        return 'unknown'
    txt = solver.to_smt2()
    # z3 prints (set-info :status ...) and no logic; cvc5 needs a logic
    txt = '(set-logic ALL)\n' + txt
    t0 = time.time()
    try:
        with tempfile.NamedTemporaryFile('w', suffix='.smt2', delete=False) as f:
            f.write(txt)
            path = f.name
        try:
            p = subprocess.run([CVC5_BIN, '--lang=smt2', '--tlimit=%d' % int(timeout_s * 1000), path],
                               capture_output=True, text=True, timeout=timeout_s + 5)
            out = p.stdout.strip().split('\n')[0] if p.stdout.strip() else ''
        finally:
            os.unlink(path)
    except subprocess.TimeoutExpired:
        out = ''
    STATS['cvc5_calls'] += 1
    STATS['cvc5_s'] += time.time() - t0
    if out in ('unsat', 'sat'):
        return out
    return 'unknown'


# ------------------------------------------------------------------------------------------------
# ring certificates

def poly_to_z3(p, genvar):
    terms = []
    for m, c in p.items():
        t = z3.RealVal(str(c.numerator)) / z3.RealVal(str(c.denominator)) if c.denominator != 1 \
            else z3.RealVal(str(c.numerator))
        for g, e in m:
            v = genvar(g)
            for _ in range(e):
                t = t * v
        terms.append(t)
    if not terms:
        return z3.RealVal(0)
    return z3.Sum(terms) if len(terms) > 1 else terms[0]


def z3_check_certificate(alg, num, nf, cert, extra=None, max_terms=6000):
    """z3 re-checks  num == nf + sum_r q_r (lhs_r - rhs_r) [+ sum c_k h_k]  as a pure polynomial identity.
    For very large certificates the identity is split monomial-wise by z3's own normaliser."""
    t0 = time.time()
    gv = {}

    def genvar(g):
        v = gv.get(g)
        if v is None:
            v = z3.Real('g%d' % g)
            gv[g] = v
        return v
    size = len(num) + len(nf) + sum(len(q) for q in cert.values())
    if size > max_terms:
        STATS['cert_checks'] += 1
        return 'skipped-large'
    rhs = poly_to_z3(nf, genvar)
    for key, q in cert.items():
        h = alg.rule_lhs_minus_rhs(key)
        rhs = rhs + poly_to_z3(q, genvar) * poly_to_z3(h, genvar)
    if extra:
        for c, h in extra:
            rhs = rhs + poly_to_z3(p_scale(h, c), genvar)
    lhs = poly_to_z3(num, genvar)
    d = z3.simplify(lhs - rhs, som=True, hoist_mul=False)
    ok = z3.is_rational_value(d) and d.numerator_as_long() == 0
    if not ok:
        s = z3.Solver()
        s.set('timeout', 20000)
        s.add(lhs != rhs)
        ok = s.check() == z3.unsat
    STATS['cert_checks'] += 1
    STATS['cert_s'] += time.time() - t0
    return 'ok' if ok else 'rejected'


class RingResult:
    __slots__ = ('status', 'detail', 'nf', 'alg')

    def __init__(self, status, detail, nf=None, alg=None):
        self.status = status
        self.detail = detail
        self.nf = nf
        self.alg = alg


def ring_prove_eq(alg, a, b, eq_hyps=(), check_cert=True):
    """try to prove a == b by normal-form reduction.  eq_hyps: list of (lhs, rhs) SR pairs usable as a
    rational linear combination.  -> RingResult(status in proved/nonzero/toolarge)"""
    t0 = time.time()
    STATS['ring_calls'] += 1
    try:
        nf, cert, num, den = alg.nf_diff(a, b, want_cert=check_cert)
        if not nf:
            if check_cert and cert:
                r = z3_check_certificate(alg, num, nf, cert)
                if r == 'rejected':
                    raise EngineError("z3 rejected a ring certificate (engine bug)")
                return RingResult('proved', 'ring-nf' + ('+z3cert' if r == 'ok' else '(cert too large for z3: %s)' % r))
            return RingResult('proved', 'ring-nf(no rules needed)')
        # N == 0 <=> N*d == 0 for a denominator symbol d of the goal (d != 0 is a safety obligation of the path):
        # completes the rewriting where relations are products (sin(b/2) cos(b/2) = sin(b)/2, ...)
        cand = [g for g in den if g not in alg.den_poly]
        for g in cand[:6]:
            nf2, cert2 = alg.reduce(p_mul(nf, {((g, 1),): Fraction(1)}), want_cert=False)
            if not nf2:
                return RingResult('proved', 'ring-nf(x nonzero denominator %s)' % alg.gen_name(g))
        if eq_hyps:
            hp = []
            for (l, r) in eq_hyps:
                hn, _, _, hd = alg.nf_diff(l, r)
                if hn:
                    hp.append(hn)
            if hp and len(nf) < 3000:
                sol = solve_linear_combination(nf, hp)
                if sol is not None:
                    return RingResult('proved', 'ring-nf+lincomb(%d hyps)' % len(hp))
        return RingResult('nonzero', alg.show_poly(nf), nf, alg)
    except TooLarge as e:
        return RingResult('toolarge', str(e))
    finally:
        STATS['ring_s'] += time.time() - t0
