"""Sparse polynomial normal forms for SR terms.

A term is brought to the shape  N / prod(d_k ^ e_k)  where N is a polynomial with rational
coefficients over *generators* (input symbols and canonical atoms: sqrt(.), sin(.), cos(.), abs(.),
arccos(.), floor(.), uninterpreted applications) and the d_k are generators or interned
non-monomial denominator polynomials.  Atoms are interned by the canonical form of their argument,
so `sqrt(a*a+b*b)` and `sqrt(b*b+a*a)` are one generator.

Equational facts about atoms are oriented rewrite rules on monomials:
    sqrt(P)^2 -> P        abs(P)^2 -> P^2        cos(t)^2 -> 1 - sin(t)^2
plus user rules (unit quaternion: q0^2 -> 1 - q1^2 - q2^2 - q3^2, ...).  `reduce` returns the normal
form together with the cofactors  N = NF + sum_r q_r * (lhs_r - rhs_r)  -- the certificate that the
back end (z3) re-checks as a pure polynomial identity.
"""
from fractions import Fraction
from .terms import SR, SB, subterms, EngineError, show

# ------------------------------------------------------------------------------------------------
# polynomials: dict  monomial -> Fraction ; monomial = tuple of (gen, exp) sorted by gen


def p_const(c):
    c = Fraction(c)
    return {(): c} if c != 0 else {}


def p_gen(g):
    return {((g, 1),): Fraction(1)}


def p_add(a, b):
    if len(a) < len(b):
        a, b = b, a
    r = dict(a)
    for m, c in b.items():
        v = r.get(m)
        if v is None:
            r[m] = c
        else:
            v = v + c
            if v == 0:
                del r[m]
            else:
                r[m] = v
    return r


def p_neg(a):
    return {m: -c for m, c in a.items()}


def p_scale(a, k):
    if k == 0:
        return {}
    if k == 1:
        return a
    return {m: c * k for m, c in a.items()}


def m_mul(m1, m2):
    if not m1:
        return m2
    if not m2:
        return m1
    i = j = 0
    out = []
    n1, n2 = len(m1), len(m2)
    while i < n1 and j < n2:
        g1, e1 = m1[i]
        g2, e2 = m2[j]
        if g1 == g2:
            out.append((g1, e1 + e2))
            i += 1
            j += 1
        elif g1 < g2:
            out.append(m1[i])
            i += 1
        else:
            out.append(m2[j])
            j += 1
    if i < n1:
        out.extend(m1[i:])
    if j < n2:
        out.extend(m2[j:])
    return tuple(out)


MAX_TERMS = [400000]


class TooLarge(Exception):
    pass


def p_mul(a, b):
    if not a or not b:
        return {}
    if len(a) * len(b) > 50 * MAX_TERMS[0]:
        raise TooLarge("polynomial product %d x %d" % (len(a), len(b)))
    if len(a) < len(b):
        a, b = b, a
    r = {}
    get = r.get
    for m2, c2 in b.items():
        for m1, c1 in a.items():
            m = m_mul(m1, m2)
            v = get(m)
            if v is None:
                r[m] = c1 * c2
            else:
                r[m] = v + c1 * c2
    r = {m: c for m, c in r.items() if c != 0}
    if len(r) > MAX_TERMS[0]:
        raise TooLarge("polynomial with %d terms" % len(r))
    return r


def p_pow(a, e):
    r = p_const(1)
    for _ in range(e):
        r = p_mul(r, a)
    return r


def p_is_monomial(a):
    return len(a) == 1


def p_key(a):
    return frozenset(a.items())


def p_gens(a):
    s = set()
    for m in a:
        for g, _ in m:
            s.add(g)
    return s


def p_eval(a, env):
    """exact/float evaluation, env: gen -> number"""
    tot = 0
    for m, c in a.items():
        t = c
        for g, e in m:
            t = t * env[g] ** e
        tot = tot + t
    return tot


# ------------------------------------------------------------------------------------------------
# generators, atoms and rules


class Algebra:
    """per-process table of generators, interned atoms and rewrite rules"""

    def __init__(self):
        self.gen_of_node = {}      # SR node id -> generator id (for 'v' and atom nodes)
        self.node_of_gen = {}      # generator id -> representative SR node (or None for den symbols)
        self.atom_intern = {}      # (fname, canonical arg key) -> generator id
        self.den_intern = {}       # canonical primitive poly key -> generator id
        self.den_poly = {}         # generator id -> poly
        self.rf_cache = {}         # SR node id -> (num, den)
        self.rules_sq = {}         # gen -> poly   (gen^2 -> poly)
        self.rules_prod = {}       # (g1, g2) sorted -> poly   (g1*g2 -> poly)
        self.rule_names = {}       # key -> text
        self.atom_info = {}        # gen -> (fname, argnum, argden)
        self.next_gen = 0
        self.sincos = {}           # canonical arg key -> {'sin': gen, 'cos': gen}
        self.name_of_gen = {}

    # -- generators -------------------------------------------------------------------------------
    def _new_gen(self, node, name):
        g = self.next_gen
        self.next_gen += 1
        self.node_of_gen[g] = node
        self.name_of_gen[g] = name
        return g

    def gen_for_var(self, node):
        g = self.gen_of_node.get(node.id)
        if g is None:
            g = self._new_gen(node, node.extra)
            self.gen_of_node[node.id] = g
        return g

    def gen_name(self, g):
        return self.name_of_gen.get(g, 'g%d' % g)

    def add_square_rule(self, g, rhs, name):
        self.rules_sq[g] = rhs
        self.rule_names[('sq', g)] = name

    def add_prod_rule(self, g1, g2, rhs, name):
        k = (g1, g2) if g1 < g2 else (g2, g1)
        self.rules_prod[k] = rhs
        self.rule_names[('pr',) + k] = name

    def add_var_square_rule(self, var_node, rhs_term, name=None):
        """user rule  var^2 -> rhs_term   (e.g. unit quaternion)"""
        g = self.gen_for_var(var_node)
        num, den = self.rf(rhs_term)
        if den:
            raise EngineError("rule right-hand side must be polynomial")
        self.add_square_rule(g, num, name or ('%s^2 -> %s' % (var_node.extra, show(rhs_term))))

    def add_var_prod_rule(self, v1, v2, rhs_term, name=None):
        num, den = self.rf(rhs_term)
        if den:
            raise EngineError("rule right-hand side must be polynomial")
        self.add_prod_rule(self.gen_for_var(v1), self.gen_for_var(v2), num,
                           name or ('%s*%s -> %s' % (v1.extra, v2.extra, show(rhs_term))))

    # -- atoms ------------------------------------------------------------------------------------
    def _atom(self, node, fname, argrfs):
        key = (fname,) + tuple((p_key(n), frozenset(d.items())) for n, d in argrfs)
        g = self.atom_intern.get(key)
        if g is not None:
            return g
        g = self._new_gen(node, show(node, 3))
        self.atom_intern[key] = g
        self.atom_info[g] = (fname, argrfs)
        if len(argrfs) == 1:
            num, den = argrfs[0]
            if fname == 'sqrt' and not den:
                self.add_square_rule(g, num, 'sqrt(t)^2 = t')
            elif fname == 'abs' and not den:
                self.add_square_rule(g, p_mul(num, num), '|t|^2 = t^2')
            elif fname in ('sin', 'cos'):
                d = self.sincos.setdefault(key[1], {})
                d[fname] = g
                if fname == 'cos':
                    # make sure the sine generator exists so that the rule is expressible
                    if 'sin' not in d:
                        from .terms import fn as _fn
                        snode = _fn('sin', node.args[0])
                        sg = self._atom(snode, 'sin', argrfs)
                        self.gen_of_node[snode.id] = sg
                    self.add_square_rule(g, p_add(p_const(1), p_neg(p_pow(p_gen(d['sin']), 2))),
                                         'cos(t)^2 = 1 - sin(t)^2')
        return g

    # -- term -> rational function -----------------------------------------------------------------
    def rf(self, term):
        """(numerator poly, {den gen: exp}) of an SR term"""
        cache = self.rf_cache
        got = cache.get(term.id)
        if got is not None:
            return got
        for n in subterms([term]):
            if not isinstance(n, SR) or n.id in cache:
                continue
            op = n.op
            if op == 'c':
                r = (p_const(n.extra), {})
            elif op == 'v':
                r = (p_gen(self.gen_for_var(n)), {})
            elif op == '+':
                r = self._rf_add(cache[n.args[0].id], cache[n.args[1].id])
            elif op == 'neg':
                a = cache[n.args[0].id]
                r = (p_neg(a[0]), a[1])
            elif op == '*':
                a, b = cache[n.args[0].id], cache[n.args[1].id]
                r = self._rf_mul(a, b)
            elif op == '/':
                a, b = cache[n.args[0].id], cache[n.args[1].id]
                r = self._rf_mul(a, self._rf_inv(b))
            elif op in ('fn', 'fn2', 'uf'):
                g = self.gen_of_node.get(n.id)
                if g is None:
                    fname = n.extra if op != 'uf' else 'uf:' + n.extra
                    g = self._atom(n, fname, tuple(cache[a.id] for a in n.args))
                    self.gen_of_node[n.id] = g
                r = (p_gen(g), {})
            elif op == 'ite':
                g = self.gen_of_node.get(n.id)
                if g is None:
                    g = self._new_gen(n, show(n, 3))
                    self.gen_of_node[n.id] = g
                r = (p_gen(g), {})
            else:
                raise EngineError("rf: unknown op %s" % op)
            cache[n.id] = r
        return cache[term.id]

    def _rf_add(self, a, b):
        (an, ad), (bn, bd) = a, b
        if not an:
            return b
        if not bn:
            return a
        if ad == bd:
            return self._cancel(p_add(an, bn), ad)
        # lcm of the monomial denominators
        l = dict(ad)
        for g, e in bd.items():
            if l.get(g, 0) < e:
                l[g] = e
        ma = tuple(sorted((g, e - ad.get(g, 0)) for g, e in l.items() if e - ad.get(g, 0) > 0))
        mb = tuple(sorted((g, e - bd.get(g, 0)) for g, e in l.items() if e - bd.get(g, 0) > 0))
        an2 = self._expand_den_mono(an, ma)
        bn2 = self._expand_den_mono(bn, mb)
        return self._cancel(p_add(an2, bn2), l)

    def _expand_den_mono(self, num, mono):
        """multiply num by prod(den_symbol^e); interned denominator polynomials are expanded"""
        if not mono:
            return num
        r = num
        for g, e in mono:
            f = self.den_poly.get(g)
            if f is None:
                f = p_gen(g)
            for _ in range(e):
                r = p_mul(r, f)
        return r

    def _rf_mul(self, a, b):
        (an, ad), (bn, bd) = a, b
        num = p_mul(an, bn)
        if not num:
            return ({}, {})
        if not ad and not bd:
            return (num, {})
        d = dict(ad)
        for g, e in bd.items():
            d[g] = d.get(g, 0) + e
        return self._cancel(num, d)

    def _cancel(self, num, den):
        """cancel generator content common to every monomial of num against den"""
        if not num:
            return ({}, {})
        if not den:
            return (num, den)
        den = dict(den)
        changed = False
        for g in list(den):
            if g in self.den_poly:
                continue
            # minimal exponent of g over all monomials
            mn = None
            for m in num:
                e = 0
                for gg, ee in m:
                    if gg == g:
                        e = ee
                        break
                if mn is None or e < mn:
                    mn = e
                if mn == 0:
                    break
            if mn:
                k = min(mn, den[g])
                num = {tuple((gg, ee - k) if gg == g else (gg, ee) for gg, ee in m if not (gg == g and ee - k == 0)): c
                       for m, c in num.items()}
                den[g] -= k
                if den[g] == 0:
                    del den[g]
                changed = True
        return (num, den)

    def _rf_inv(self, a):
        an, ad = a
        if not an:
            raise EngineError("division by a term that is identically zero")
        # numerator of the inverse: product of a's denominator symbols
        num = self._expand_den_mono(p_const(1), tuple(sorted(ad.items())))
        if p_is_monomial(an):
            (m, c), = an.items()
            den = {g: e for g, e in m}
            return self._cancel(p_scale(num, 1 / c), den)
        # non-monomial: reduce first (maybe it is a monomial modulo the rules), else intern
        red = self.reduce(an)[0]
        if red and p_is_monomial(red):
            (m, c), = red.items()
            den = {g: e for g, e in m}
            return self._cancel(p_scale(num, 1 / c), den)
        # primitive normalisation: divide by the coefficient of the smallest monomial
        lead = min(an)
        c = an[lead]
        prim = p_scale(an, 1 / c)
        key = p_key(prim)
        g = self.den_intern.get(key)
        if g is None:
            g = self._new_gen(None, 'den%d' % self.next_gen)
            self.den_intern[key] = g
            self.den_poly[g] = prim
        return (p_scale(num, 1 / c), {g: 1})

    # -- reduction --------------------------------------------------------------------------------
    def reduce(self, poly, want_cert=False, max_steps=2000000):
        """normal form of poly modulo the rules.  returns (nf, cert) ; cert: rulekey -> cofactor"""
        rules_sq = self.rules_sq
        rules_prod = self.rules_prod
        if not rules_sq and not rules_prod:
            return poly, {}
        prod_gens = set()
        for (a, b) in rules_prod:
            prod_gens.add(a)
            prod_gens.add(b)
        out = {}
        cert = {}
        work = dict(poly)
        steps = 0
        while work:
            m, c = work.popitem()
            hit = None
            for idx, (g, e) in enumerate(m):
                if e >= 2 and g in rules_sq:
                    hit = ('sq', g, idx)
                    break
            if hit is None and prod_gens:
                present = [g for g, e in m if g in prod_gens]
                if len(present) >= 2:
                    ps = set(present)
                    for (a, b) in rules_prod:
                        if a in ps and b in ps:
                            hit = ('pr', a, b)
                            break
            if hit is None:
                v = out.get(m)
                if v is None:
                    out[m] = c
                else:
                    v = v + c
                    if v == 0:
                        del out[m]
                    else:
                        out[m] = v
                continue
            steps += 1
            if steps > max_steps:
                raise TooLarge("reduction did not finish in %d steps" % max_steps)
            if hit[0] == 'sq':
                g = hit[1]
                rest = tuple((gg, ee - 2) if gg == g else (gg, ee) for gg, ee in m if not (gg == g and ee == 2))
                rhs = rules_sq[g]
                key = ('sq', g)
            else:
                a, b = hit[1], hit[2]
                rest = tuple((gg, ee - 1) if gg in (a, b) else (gg, ee) for gg, ee in m
                             if not (gg in (a, b) and ee == 1))
                rhs = rules_prod[(a, b)]
                key = ('pr', a, b)
            if want_cert:
                q = cert.setdefault(key, {})
                v = q.get(rest)
                v = c if v is None else v + c
                if v == 0:
                    q.pop(rest, None)
                else:
                    q[rest] = v
            for m2, c2 in rhs.items():
                mm = m_mul(rest, m2)
                cc = c * c2
                v = work.get(mm)
                if v is None:
                    work[mm] = cc
                else:
                    v = v + cc
                    if v == 0:
                        del work[mm]
                    else:
                        work[mm] = v
            if len(work) + len(out) > MAX_TERMS[0]:
                raise TooLarge("reduction blew up")
        return out, cert

    def rule_lhs_minus_rhs(self, key):
        if key[0] == 'sq':
            lhs = {((key[1], 2),): Fraction(1)}
            rhs = self.rules_sq[key[1]]
        else:
            lhs = {tuple(sorted(((key[1], 1), (key[2], 1)))): Fraction(1)}
            rhs = self.rules_prod[(key[1], key[2])]
        return p_add(lhs, p_neg(rhs))

    def nf_diff(self, a, b, want_cert=False):
        """normal form of numerator(a - b); returns (nf, cert, num, den)"""
        from .terms import add, neg
        num, den = self.rf(add(a, neg(b)))
        nf, cert = self.reduce(num, want_cert)
        return nf, cert, num, den

    def show_poly(self, p, limit=6):
        if not p:
            return '0'
        parts = []
        for m, c in list(p.items())[:limit]:
            mono = '*'.join(self.gen_name(g) + ('^%d' % e if e > 1 else '') for g, e in m)
            parts.append(('%s' % c) + ('*' + mono if mono else ''))
        s = ' + '.join(parts)
        if len(p) > limit:
            s += ' + … (%d terms)' % len(p)
        return s


def solve_linear_combination(target, hyps):
    """find rationals c_k with sum c_k hyps[k] == target (polys); None if impossible"""
    if not target:
        return [Fraction(0)] * len(hyps)
    monos = set(target)
    for h in hyps:
        monos |= set(h)
    monos = list(monos)
    idx = {m: i for i, m in enumerate(monos)}
    n = len(hyps)
    # rows: monomials ; columns: hyps + rhs  -> gaussian elimination over Q
    rows = [[Fraction(0)] * (n + 1) for _ in monos]
    for k, h in enumerate(hyps):
        for m, c in h.items():
            rows[idx[m]][k] = c
    for m, c in target.items():
        rows[idx[m]][n] = c
    piv_cols = []
    r = 0
    for col in range(n):
        p = None
        for i in range(r, len(rows)):
            if rows[i][col] != 0:
                p = i
                break
        if p is None:
            continue
        rows[r], rows[p] = rows[p], rows[r]
        pv = rows[r][col]
        rows[r] = [x / pv for x in rows[r]]
        for i in range(len(rows)):
            if i != r and rows[i][col] != 0:
                f = rows[i][col]
                rows[i] = [x - f * y for x, y in zip(rows[i], rows[r])]
        piv_cols.append(col)
        r += 1
        if r == len(rows):
            break
    for i in range(r, len(rows)):
        if rows[i][n] != 0:
            return None
    sol = [Fraction(0)] * n
    for i, col in enumerate(piv_cols):
        sol[col] = rows[i][n]
    return sol
