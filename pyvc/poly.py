"""Sparse polynomial normal forms for SR terms.

A term is brought to the shape  N / prod(d_k ^ e_k)  where N is a polynomial with rational
coefficients over *generators* (input symbols and canonical atoms: sqrt(.), sin(.), cos(.), abs(.),
arccos(.), floor(.), uninterpreted applications) and the d_k are generators or interned
non-monomial denominator polynomials.  Atoms are interned by the canonical form of their argument,
so `sqrt(a*a+b*b)` and `sqrt(b*b+a*a)` are one generator.

Equational facts about atoms are oriented rewrite rules on monomials:
    sqrt(P)^2 -> P        abs(P)^2 -> P^2        cos(t)^2 -> 1 - sin(t)^2
plus user rules (unit quaternion: q0^2 -> 1 - q1^2 - q2^2 - q3^2, ...).  `reduce` returns the normal
form together with the cofactors  N = NF + sum_r q_r * (lhs_r - rhs_r)  -- the certificate that the
back end (z3) re-checks as a pure polynomial identity.
"""
from fractions import Fraction
import math
from .terms import SR, SB, subterms, EngineError, show

# ------------------------------------------------------------------------------------------------
# polynomials: dict  monomial -> Fraction ; monomial = tuple of (gen, exp) sorted by gen


def p_const(c):
    c = Fraction(c)
    return {(): c} if c != 0 else {}


def p_gen(g):
    return {((g, 1),): Fraction(1)}


def p_add(a, b):
    if len(a) < len(b):
        a, b = b, a
    r = dict(a)
    for m, c in b.items():
        v = r.get(m)
        if v is None:
            r[m] = c
        else:
            v = v + c
            if v == 0:
                del r[m]
            else:
                r[m] = v
    return r


def p_neg(a):
    return {m: -c for m, c in a.items()}


def p_scale(a, k):
    if k == 0:
        return {}
    if k == 1:
        return a
    return {m: c * k for m, c in a.items()}


def m_mul(m1, m2):
    if not m1:
        return m2
    if not m2:
        return m1
    i = j = 0
    out = []
    n1, n2 = len(m1), len(m2)
    while i < n1 and j < n2:
        g1, e1 = m1[i]
        g2, e2 = m2[j]
        if g1 == g2:
            out.append((g1, e1 + e2))
            i += 1
            j += 1
        elif g1 < g2:
            out.append(m1[i])
            i += 1
        else:
            out.append(m2[j])
            j += 1
    if i < n1:
        out.extend(m1[i:])
    if j < n2:
        out.extend(m2[j:])
    return tuple(out)


MAX_TERMS = [400000]


class TooLarge(Exception):
    pass


def p_mul(a, b):
    if not a or not b:
        return {}
    if len(a) * len(b) > 50 * MAX_TERMS[0]:
        raise TooLarge("polynomial product %d x %d" % (len(a), len(b)))
    if len(a) < len(b):
        a, b = b, a
    r = {}
    get = r.get
    for m2, c2 in b.items():
        for m1, c1 in a.items():
            m = m_mul(m1, m2)
            v = get(m)
            if v is None:
                r[m] = c1 * c2
            else:
                r[m] = v + c1 * c2
    r = {m: c for m, c in r.items() if c != 0}
    if len(r) > MAX_TERMS[0]:
        raise TooLarge("polynomial with %d terms" % len(r))
    return r


def p_pow(a, e):
    r = p_const(1)
    for _ in range(e):
        r = p_mul(r, a)
    return r


def p_is_monomial(a):
    return len(a) == 1


def p_key(a):
    return frozenset(a.items())


def p_gens(a):
    s = set()
    for m in a:
        for g, _ in m:
            s.add(g)
    return s


def p_eval(a, env):
    """exact/float evaluation, env: gen -> number"""
    tot = 0
    for m, c in a.items():
        t = c
        for g, e in m:
            t = t * env[g] ** e
        tot = tot + t
    return tot


def p_divexact(n, d):
    """exact quotient n / d of sparse polynomials, or None if d does not divide n"""
    if not d:
        return None
    if not n:
        return {}
    gens = sorted(p_gens(n) | p_gens(d))
    pos = {g: i for i, g in enumerate(gens)}
    k = len(gens)

    def key(m):
        v = [0] * k
        for g, e in m:
            v[pos[g]] = e
        return tuple(v)
    dk = {key(m): c for m, c in d.items()}
    lead_d = max(dk)
    lc_d = dk[lead_d]
    rem = {key(m): c for m, c in n.items()}
    q = {}
    steps = 0
    while rem:
        steps += 1
        if steps > 200000:
            return None
        lm = max(rem)
        qe = tuple(a - b for a, b in zip(lm, lead_d))
        if min(qe, default=0) < 0:
            return None
        qc = rem[lm] / lc_d
        q[qe] = qc
        for m, c in dk.items():
            mm = tuple(a + b for a, b in zip(qe, m))
            v = rem.get(mm, 0) - qc * c
            if v == 0:
                rem.pop(mm, None)
            else:
                rem[mm] = v
    return {tuple((gens[i], e) for i, e in enumerate(m) if e): c for m, c in q.items()}


# ------------------------------------------------------------------------------------------------
# generators, atoms and rules


class Algebra:
    """per-process table of generators, interned atoms and rewrite rules"""

    def __init__(self):
        self.gen_of_node = {}      # SR node id -> generator id (for 'v' and atom nodes)
        self.node_of_gen = {}      # generator id -> representative SR node (or None for den symbols)
        self.atom_intern = {}      # (fname, canonical arg key) -> generator id
        self.den_intern = {}       # canonical primitive poly key -> generator id
        self.den_poly = {}         # generator id -> poly
        self.rf_cache = {}         # SR node id -> (num, den)
        self.rules_sq = {}         # gen -> poly   (gen^2 -> poly)
        self.rules_prod = {}       # (g1, g2) sorted -> poly   (g1*g2 -> poly)
        self.rule_names = {}       # key -> text
        self.atom_info = {}        # gen -> (fname, argnum, argden)
        self.next_gen = 0
        self.sincos = {}           # canonical arg key -> {'sin': gen, 'cos': gen}
        self.abs_of_gen = {}       # gen of |x| -> gen x
        self.rules_lin = {}        # gen -> poly  (gen -> poly, any power)
        self.oracle = None         # callable(SB) -> True if the current path's hypotheses entail it (else False/None)
        self._scopes = []
        self.name_of_gen = {}

    # -- generators -------------------------------------------------------------------------------
    def _new_gen(self, node, name):
        g = self.next_gen
        self.next_gen += 1
        self.node_of_gen[g] = node
        self.name_of_gen[g] = name
        return g

    def gen_for_var(self, node):
        g = self.gen_of_node.get(node.id)
        if g is None:
            g = self._new_gen(node, node.extra)
            self.gen_of_node[node.id] = g
        return g

    def gen_name(self, g):
        return self.name_of_gen.get(g, 'g%d' % g)

    def add_square_rule(self, g, rhs, name):
        self.rules_sq[g] = rhs
        self.rule_names[('sq', g)] = name

    def add_prod_rule(self, g1, g2, rhs, name):
        k = (g1, g2) if g1 < g2 else (g2, g1)
        self.rules_prod[k] = rhs
        self.rule_names[('pr',) + k] = name

    _STATE = ('gen_of_node', 'node_of_gen', 'atom_intern', 'den_intern', 'den_poly', 'rf_cache', 'rules_sq',
              'rules_prod', 'rule_names', 'atom_info', 'sincos', 'name_of_gen', 'abs_of_gen', 'rules_lin')

    def push(self):
        self._scopes.append(({k: dict(getattr(self, k)) for k in self._STATE}, self.next_gen))

    def pop(self):
        st, ng = self._scopes.pop()
        for k, v in st.items():
            setattr(self, k, v)
        self.next_gen = ng

    def add_var_linear_rule(self, var_node, rhs_term, name=None):
        """path-scoped substitution  var -> rhs_term (rhs must not mention var)"""
        g = self.gen_for_var(var_node)
        num, den = self.rf(rhs_term)
        if den:
            raise EngineError("rule right-hand side must be polynomial")
        num = self.reduce(num)[0]
        if g in p_gens(num):
            raise EngineError("linear rule is cyclic")
        self.rules_lin[g] = num
        self.rule_names[('lin', g)] = name or ('%s -> %s' % (var_node.extra, show(rhs_term)))
        self.rf_cache = {k: v for k, v in self.rf_cache.items() if not (isinstance(k, tuple) and k and k[0] == 'cmp')}

    def add_var_square_rule(self, var_node, rhs_term, name=None):
        """user rule  var^2 -> rhs_term   (e.g. unit quaternion)"""
        g = self.gen_for_var(var_node)
        num, den = self.rf(rhs_term)
        if den:
            raise EngineError("rule right-hand side must be polynomial")
        self.add_square_rule(g, num, name or ('%s^2 -> %s' % (var_node.extra, show(rhs_term))))

    def add_var_prod_rule(self, v1, v2, rhs_term, name=None):
        num, den = self.rf(rhs_term)
        if den:
            raise EngineError("rule right-hand side must be polynomial")
        self.add_prod_rule(self.gen_for_var(v1), self.gen_for_var(v2), num,
                           name or ('%s*%s -> %s' % (v1.extra, v2.extra, show(rhs_term))))

    # -- atoms ------------------------------------------------------------------------------------
    def _norm_rf(self, rf):
        """reduce numerator by the rules and apply monomial rules to denominator symbols"""
        num, den = rf
        num = self.reduce(num)[0]
        if den:
            den = dict(den)
            for g in list(den):
                base = self.abs_of_gen.get(g)      # g = |x| for a generator x : g^2 -> x^2
                if base is not None and den[g] >= 2:
                    k = den[g] // 2
                    den[g] -= 2 * k
                    if den[g] == 0:
                        del den[g]
                    den[base] = den.get(base, 0) + 2 * k
            # g^2 in the denominator with a rule g^2 -> P : cancel when P divides the numerator exactly
            for g in list(den):
                while den.get(g, 0) >= 2 and g in self.rules_sq and g not in self.abs_of_gen:
                    P = self.reduce(self.rules_sq[g])[0]
                    qn = p_divexact(num, P) if P else None
                    if qn is None:
                        break
                    num = qn
                    den[g] -= 2
                    if den[g] == 0:
                        del den[g]
            num, den = self._cancel(num, den)
        return (num, den)

    def _nonneg_gen(self, g):
        info = self.atom_info.get(g)
        if info is not None and info[0] in ('sqrt', 'abs', 'arccos'):
            return True
        n = self.node_of_gen.get(g)
        return n is not None and n.op == 'v' and n.extra == 'pi'

    def _abs_gen_poly(self, g):
        """polynomial for |x| where x is the generator g"""
        if self._nonneg_gen(g):
            return p_gen(g)
        from .terms import fn as _fn, le as _le, ZERO as _Z
        node = self.node_of_gen[g]
        if self.oracle is not None and node is not None:
            if self.oracle(_le(_Z, node)):
                return p_gen(g)
            if self.oracle(_le(node, _Z)):
                return p_neg(p_gen(g))
        anode = _fn('abs', node)
        ag = self.gen_of_node.get(anode.id)
        if ag is None:
            ag = self._atom_gen(anode, 'abs', ((p_gen(g), {}),))
            self.gen_of_node[anode.id] = ag
            self.abs_of_gen[ag] = g
        return p_gen(ag)

    def _atom_rf(self, node, fname, argrfs):
        """rational function of an atom application, simplified where the canonical argument allows"""
        if fname == 'tan':
            from .terms import fn as _fn
            s = self.rf(_fn('sin', node.args[0]))
            c = self.rf(_fn('cos', node.args[0]))
            return self._rf_mul(s, self._rf_inv(c))
        if len(argrfs) == 1 and fname in ('sqrt', 'abs', 'sin', 'cos'):
            num, den = argrfs[0] = self._norm_rf(argrfs[0])
            if not num:
                return ({(): Fraction(1)} if fname == 'cos' else {}, {})
            if fname in ('sqrt', 'abs') and p_is_monomial(num):
                (m, c), = num.items()
                ok = True
                if fname == 'sqrt':
                    # perfect-square monomial / perfect-square denominator: sqrt(c m^2 / d^2) = sqrt(c) |m| / |d|
                    if c < 0 or any(e % 2 for _, e in m) or any(e % 2 for e in den.values()):
                        ok = False
                    else:
                        rn, rd = math.isqrt(c.numerator), math.isqrt(c.denominator)
                        if rn * rn != c.numerator or rd * rd != c.denominator:
                            ok = False
                    if ok:
                        out = p_const(Fraction(rn, rd))
                        for g, e in m:
                            out = p_mul(out, p_pow(self._abs_gen_poly(g), e // 2))
                        dd = {}
                        for g, e in den.items():
                            if g in self.den_poly:
                                ok = False
                                break
                            ap = self._abs_gen_poly(g)
                            (am, _), = ap.items()
                            dd[am[0][0]] = dd.get(am[0][0], 0) + e // 2
                        if ok:
                            return self._cancel(out, dd)
                else:
                    # |c * prod g^e / prod d^e|
                    if all(g not in self.den_poly for g in den):
                        out = p_const(abs(c))
                        for g, e in m:
                            out = p_mul(out, p_pow(self._abs_gen_poly(g), e))
                        dd = {}
                        for g, e in den.items():
                            ap = self._abs_gen_poly(g)
                            (am, _), = ap.items()
                            dd[am[0][0]] = dd.get(am[0][0], 0) + e
                        return self._cancel(out, dd)
            if fname in ('sin', 'cos') and not den and p_is_monomial(num):
                (m, c), = num.items()
                if len(m) == 1 and m[0][1] == 1 and self._is_pi(m[0][0]) and (2 * c).denominator == 1:
                    q = int(2 * c) % 4
                    val = {'sin': [0, 1, 0, -1], 'cos': [1, 0, -1, 0]}[fname][q]
                    return (p_const(val), {})
            if fname in ('sin', 'cos') and num:
                # odd/even symmetry: canonical sign of the argument (leading coefficient positive)
                lead = min(num)
                if num[lead] < 0:
                    pos = (p_neg(num), den)
                    from .terms import fn as _fn, neg as _neg
                    g = self._atom_gen(_fn(fname, _neg(node.args[0])), fname, (pos,))
                    return (p_neg(p_gen(g)) if fname == 'sin' else p_gen(g), {})
        if len(argrfs) == 1 and fname in ('sin', 'cos'):
            num, den = argrfs[0]
            if not den and p_is_monomial(num):
                (m, c), = num.items()
                if c == 1 and len(m) == 1 and m[0][1] == 1:
                    inner = self.atom_info.get(m[0][0])
                    if inner is not None and inner[0] == 'arccos':
                        # cos(arccos x) = x ; sin(arccos x) = sqrt(1 - x^2)   (x in [-1, 1]: arccos's own safety VC)
                        xnode = self.node_of_gen[m[0][0]].args[0]
                        if fname == 'cos':
                            return self.rf(xnode)
                        from .terms import fn as _fn, add as _add, neg as _neg, mul as _mul, ONE as _ONE
                        return self.rf(_fn('sqrt', _add(_ONE, _neg(_mul(xnode, xnode)))))
        if len(argrfs) == 1 and fname == 'abs' and self.oracle is not None:
            from .terms import le as _le, ZERO as _Z
            if self.oracle(_le(_Z, node.args[0])):
                return argrfs[0]
            if self.oracle(_le(node.args[0], _Z)):
                return (p_neg(argrfs[0][0]), argrfs[0][1])
        if len(argrfs) == 1 and fname == 'arccos' and self.oracle is not None:
            num, den = argrfs[0] = self._norm_rf(argrfs[0])
            if not den and p_is_monomial(num):
                (m, c), = num.items()
                if c == 1 and len(m) == 1 and m[0][1] == 1:
                    inner = self.atom_info.get(m[0][0])
                    if inner is not None and inner[0] == 'cos':
                        tnode = self.node_of_gen[m[0][0]].args[0]
                        from .terms import le as _le, ZERO as _Z, PI as _PI, sand as _sand
                        if self.oracle(_sand(_le(_Z, tnode), _le(tnode, _PI))):
                            return self.rf(tnode)
        g = self._atom_gen(node, fname, tuple(argrfs))
        return (p_gen(g), {})

    def _is_pi(self, g):
        n = self.node_of_gen.get(g)
        return n is not None and n.op == 'v' and n.extra == 'pi'

    def _atom_gen(self, node, fname, argrfs):
        key = (fname,) + tuple((p_key(n), frozenset(d.items())) for n, d in argrfs)
        g = self.atom_intern.get(key)
        if g is not None:
            return g
        g = self._new_gen(node, show(node, 3))
        self.atom_intern[key] = g
        self.atom_info[g] = (fname, argrfs)
        if len(argrfs) == 1:
            num, den = argrfs[0]
            if fname == 'sqrt' and not den:
                self.add_square_rule(g, num, 'sqrt(t)^2 = t')
            elif fname == 'abs' and not den:
                self.add_square_rule(g, p_mul(num, num), '|t|^2 = t^2')
                if p_is_monomial(num):
                    (m, c), = num.items()
                    if c == 1 and len(m) == 1 and m[0][1] == 1:
                        self.abs_of_gen[g] = m[0][0]
            elif fname in ('sin', 'cos'):
                d = self.sincos.setdefault(key[1], {})
                d[fname] = g
                if fname == 'cos':
                    # make sure the sine generator exists so that the rule is expressible
                    if 'sin' not in d:
                        from .terms import fn as _fn
                        snode = _fn('sin', node.args[0])
                        sg = self._atom_gen(snode, 'sin', argrfs)
                        self.gen_of_node.setdefault(snode.id, sg)
                    self.add_square_rule(g, p_add(p_const(1), p_neg(p_pow(p_gen(d['sin']), 2))),
                                         'cos(t)^2 = 1 - sin(t)^2')
                    self._half_angle_rules(d, num, den)
        return g

    def _half_angle_rules(self, d, num, den):
        """if the argument is b/2 for a generator b:  sin^2 = (1 - cos b)/2, cos^2 = (1 + cos b)/2,
        sin*cos = sin(b)/2   (half-angle formulas)"""
        if den or not p_is_monomial(num):
            return
        (m, c), = num.items()
        if c != Fraction(1, 2) or len(m) != 1 or m[0][1] != 1:
            return
        bnode = self.node_of_gen.get(m[0][0])
        if bnode is None:
            return
        from .terms import fn as _fn
        cb = self.rf(_fn('cos', bnode))
        sb = self.rf(_fn('sin', bnode))
        if cb[1] or sb[1]:
            return
        half = Fraction(1, 2)
        self.add_square_rule(d['sin'], p_scale(p_add(p_const(1), p_neg(cb[0])), half), 'sin(b/2)^2 = (1 - cos b)/2')
        self.add_square_rule(d['cos'], p_scale(p_add(p_const(1), cb[0]), half), 'cos(b/2)^2 = (1 + cos b)/2')
        self.add_prod_rule(d['sin'], d['cos'], p_scale(sb[0], half), 'sin(b/2) cos(b/2) = sin(b)/2')

    # -- term -> rational function -----------------------------------------------------------------
    def rf(self, term):
        """(numerator poly, {den gen: exp}) of an SR term"""
        cache = self.rf_cache
        got = cache.get(term.id)
        if got is not None:
            return got
        for n in subterms([term]):
            if not isinstance(n, SR) or n.id in cache:
                continue
            op = n.op
            if op == 'c':
                r = (p_const(n.extra), {})
            elif op == 'v':
                r = (p_gen(self.gen_for_var(n)), {})
            elif op == '+':
                r = self._rf_add(cache[n.args[0].id], cache[n.args[1].id])
            elif op == 'neg':
                a = cache[n.args[0].id]
                r = (p_neg(a[0]), a[1])
            elif op == '*':
                a, b = cache[n.args[0].id], cache[n.args[1].id]
                r = self._rf_mul(a, b)
            elif op == '/':
                a, b = cache[n.args[0].id], cache[n.args[1].id]
                r = self._rf_mul(a, self._rf_inv(b))
            elif op in ('fn', 'fn2', 'uf'):
                fname = n.extra if op != 'uf' else 'uf:' + n.extra
                r = self._atom_rf(n, fname, [cache[a.id] for a in n.args])
            elif op == 'ite':
                g = self.gen_of_node.get(n.id)
                if g is None:
                    g = self._new_gen(n, show(n, 3))
                    self.gen_of_node[n.id] = g
                r = (p_gen(g), {})
            else:
                raise EngineError("rf: unknown op %s" % op)
            cache[n.id] = r
        return cache[term.id]

    def _rf_add(self, a, b):
        (an, ad), (bn, bd) = a, b
        if not an:
            return b
        if not bn:
            return a
        if ad == bd:
            return self._cancel(p_add(an, bn), ad)
        # lcm of the monomial denominators
        l = dict(ad)
        for g, e in bd.items():
            if l.get(g, 0) < e:
                l[g] = e
        ma = tuple(sorted((g, e - ad.get(g, 0)) for g, e in l.items() if e - ad.get(g, 0) > 0))
        mb = tuple(sorted((g, e - bd.get(g, 0)) for g, e in l.items() if e - bd.get(g, 0) > 0))
        an2 = self._expand_den_mono(an, ma)
        bn2 = self._expand_den_mono(bn, mb)
        return self._cancel(p_add(an2, bn2), l)

    def _expand_den_mono(self, num, mono):
        """multiply num by prod(den_symbol^e); interned denominator polynomials are expanded"""
        if not mono:
            return num
        r = num
        for g, e in mono:
            f = self.den_poly.get(g)
            if f is None:
                f = p_gen(g)
            for _ in range(e):
                r = p_mul(r, f)
        return r

    def _rf_mul(self, a, b):
        (an, ad), (bn, bd) = a, b
        num = p_mul(an, bn)
        if not num:
            return ({}, {})
        if not ad and not bd:
            return (num, {})
        d = dict(ad)
        for g, e in bd.items():
            d[g] = d.get(g, 0) + e
        return self._cancel(num, d)

    def _cancel(self, num, den):
        """cancel generator content common to every monomial of num against den"""
        if not num:
            return ({}, {})
        if not den:
            return (num, den)
        den = dict(den)
        changed = False
        for g in list(den):
            if g in self.den_poly:
                continue
            # minimal exponent of g over all monomials
            mn = None
            for m in num:
                e = 0
                for gg, ee in m:
                    if gg == g:
                        e = ee
                        break
                if mn is None or e < mn:
                    mn = e
                if mn == 0:
                    break
            if mn:
                k = min(mn, den[g])
                num = {tuple((gg, ee - k) if gg == g else (gg, ee) for gg, ee in m if not (gg == g and ee - k == 0)): c
                       for m, c in num.items()}
                den[g] -= k
                if den[g] == 0:
                    del den[g]
                changed = True
        return (num, den)

    def _rf_inv(self, a):
        an, ad = a
        if not an:
            raise EngineError("division by a term that is identically zero")
        # numerator of the inverse: product of a's denominator symbols
        num = self._expand_den_mono(p_const(1), tuple(sorted(ad.items())))
        if p_is_monomial(an):
            (m, c), = an.items()
            den = {g: e for g, e in m}
            return self._cancel(p_scale(num, 1 / c), den)
        # non-monomial: reduce first (maybe it is a monomial modulo the rules), else intern
        red = self.reduce(an)[0]
        if red and p_is_monomial(red):
            (m, c), = red.items()
            den = {g: e for g, e in m}
            return self._cancel(p_scale(num, 1 / c), den)
        # primitive normalisation: divide by the coefficient of the smallest monomial
        lead = min(an)
        c = an[lead]
        prim = p_scale(an, 1 / c)
        key = p_key(prim)
        g = self.den_intern.get(key)
        if g is None:
            g = self._new_gen(None, 'den%d' % self.next_gen)
            self.den_intern[key] = g
            self.den_poly[g] = prim
        return (p_scale(num, 1 / c), {g: 1})

    # -- reduction --------------------------------------------------------------------------------
    def reduce(self, poly, want_cert=False, max_steps=2000000):
        """normal form of poly modulo the rules.  returns (nf, cert) ; cert: rulekey -> cofactor"""
        rules_sq = self.rules_sq
        rules_prod = self.rules_prod
        rules_lin = self.rules_lin
        if not rules_sq and not rules_prod and not rules_lin:
            return poly, {}
        prod_gens = set()
        for (a, b) in rules_prod:
            prod_gens.add(a)
            prod_gens.add(b)
        out = {}
        cert = {}
        work = dict(poly)
        steps = 0
        while work:
            m, c = work.popitem()
            hit = None
            for idx, (g, e) in enumerate(m):
                if rules_lin and g in rules_lin:
                    hit = ('lin', g, idx)
                    break
                if e >= 2 and g in rules_sq:
                    hit = ('sq', g, idx)
                    break
            if hit is None and prod_gens:
                present = [g for g, e in m if g in prod_gens]
                if len(present) >= 2:
                    ps = set(present)
                    for (a, b) in rules_prod:
                        if a in ps and b in ps:
                            hit = ('pr', a, b)
                            break
            if hit is None:
                v = out.get(m)
                if v is None:
                    out[m] = c
                else:
                    v = v + c
                    if v == 0:
                        del out[m]
                    else:
                        out[m] = v
                continue
            steps += 1
            if steps > max_steps:
                raise TooLarge("reduction did not finish in %d steps" % max_steps)
            if hit[0] == 'lin':
                g = hit[1]
                rest = tuple((gg, ee - 1) if gg == g else (gg, ee) for gg, ee in m if not (gg == g and ee == 1))
                rhs = rules_lin[g]
                key = ('lin', g)
            elif hit[0] == 'sq':
                g = hit[1]
                rest = tuple((gg, ee - 2) if gg == g else (gg, ee) for gg, ee in m if not (gg == g and ee == 2))
                rhs = rules_sq[g]
                key = ('sq', g)
            else:
                a, b = hit[1], hit[2]
                rest = tuple((gg, ee - 1) if gg in (a, b) else (gg, ee) for gg, ee in m
                             if not (gg in (a, b) and ee == 1))
                rhs = rules_prod[(a, b)]
                key = ('pr', a, b)
            if want_cert:
                q = cert.setdefault(key, {})
                v = q.get(rest)
                v = c if v is None else v + c
                if v == 0:
                    q.pop(rest, None)
                else:
                    q[rest] = v
            for m2, c2 in rhs.items():
                mm = m_mul(rest, m2)
                cc = c * c2
                v = work.get(mm)
                if v is None:
                    work[mm] = cc
                else:
                    v = v + cc
                    if v == 0:
                        del work[mm]
                    else:
                        work[mm] = v
            if len(work) + len(out) > MAX_TERMS[0]:
                raise TooLarge("reduction blew up")
        return out, cert

    def rule_lhs_minus_rhs(self, key):
        if key[0] == 'lin':
            return p_add(p_gen(key[1]), p_neg(self.rules_lin[key[1]]))
        if key[0] == 'sq':
            lhs = {((key[1], 2),): Fraction(1)}
            rhs = self.rules_sq[key[1]]
        else:
            lhs = {tuple(sorted(((key[1], 1), (key[2], 1)))): Fraction(1)}
            rhs = self.rules_prod[(key[1], key[2])]
        return p_add(lhs, p_neg(rhs))

    def nf_diff(self, a, b, want_cert=False):
        """normal form of numerator(a - b); returns (nf, cert, num, den)"""
        from .terms import add, neg
        num, den = self.rf(add(a, neg(b)))
        nf, cert = self.reduce(num, want_cert)
        return nf, cert, num, den

    def canon_cmp(self, op, a, b):
        """canonical form of `a op b`: True/False when decided by the normal form, else (op, poly) meaning
        poly op 0.  N/D op 0 is N*D op 0 for < and <= (D != 0 is a safety obligation), N == 0 for ==."""
        from .terms import add, neg
        key = ('cmp', op, a.id, b.id)
        got = self.rf_cache.get(key)
        if got is not None:
            return got
        num, den = self.rf(add(a, neg(b)))
        num = self.reduce(num)[0]
        if op != '==' and den:
            # multiply by the odd-power denominator symbols whose sign is not known to be positive
            for g, e in den.items():
                if e % 2 and not self._nonneg_gen(g):
                    f = self.den_poly.get(g) or p_gen(g)
                    num = p_mul(num, f)
            num = self.reduce(num)[0]
        if not num:
            r = op in ('<=', '==')
        elif len(num) == 1 and () in num:
            c = num[()]
            r = (c < 0) if op == '<' else ((c <= 0) if op == '<=' else False)
        else:
            # normalise the scale (positive factor) so that equal conditions get equal polynomials
            lead = min(num)
            k = abs(num[lead])
            r = (op, p_scale(num, 1 / k))
        self.rf_cache[key] = r
        return r

    def show_poly(self, p, limit=6):
        if not p:
            return '0'
        parts = []
        for m, c in list(p.items())[:limit]:
            mono = '*'.join(self.gen_name(g) + ('^%d' % e if e > 1 else '') for g, e in m)
            parts.append(('%s' % c) + ('*' + mono if mono else ''))
        s = ' + '.join(parts)
        if len(p) > limit:
            s += ' + … (%d terms)' % len(p)
        return s


def solve_linear_combination(target, hyps):
    """find rationals c_k with sum c_k hyps[k] == target (polys); None if impossible"""
    if not target:
        return [Fraction(0)] * len(hyps)
    monos = set(target)
    for h in hyps:
        monos |= set(h)
    monos = list(monos)
    idx = {m: i for i, m in enumerate(monos)}
    n = len(hyps)
    # rows: monomials ; columns: hyps + rhs  -> gaussian elimination over Q
    rows = [[Fraction(0)] * (n + 1) for _ in monos]
    for k, h in enumerate(hyps):
        for m, c in h.items():
            rows[idx[m]][k] = c
    for m, c in target.items():
        rows[idx[m]][n] = c
    piv_cols = []
    r = 0
    for col in range(n):
        p = None
        for i in range(r, len(rows)):
            if rows[i][col] != 0:
                p = i
                break
        if p is None:
            continue
        rows[r], rows[p] = rows[p], rows[r]
        pv = rows[r][col]
        rows[r] = [x / pv for x in rows[r]]
        for i in range(len(rows)):
            if i != r and rows[i][col] != 0:
                f = rows[i][col]
                rows[i] = [x - f * y for x, y in zip(rows[i], rows[r])]
        piv_cols.append(col)
        r += 1
        if r == len(rows):
            break
    for i in range(r, len(rows)):
        if rows[i][n] != 0:
            return None
    sol = [Fraction(0)] * n
    for i, col in enumerate(piv_cols):
        sol[col] = rows[i][n]
    return sol
