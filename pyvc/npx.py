"""`np` as seen by the code under verification (rewrite T2 of DESIGN.md).

Everything not overridden here is NumPy's own attribute.  Constructors return dtype=object arrays
(`SArr`, a thin ndarray subclass) whose cells are SR terms, so that the real code's slicing, views,
copies, reshapes, stacking and in-place assignment are executed by NumPy itself.
"""
import math
import builtins as _bi
import numpy as _np
from fractions import Fraction
from . import terms as T
from .terms import SR, SB, Dual, EngineError


class SArr(_np.ndarray):
    """object ndarray whose numeric cells are SR; survives views/ufuncs through NumPy's own subclass
    propagation.  Three methods cannot be reached through the module proxy and are overridden."""

    def astype(self, dtype, *a, **k):
        if self.dtype == object and dtype in (float, _np.float64, 'float', 'float64', _np.double):
            return self.copy()
        return _np.ndarray.astype(self, dtype, *a, **k)

    def __float__(self):
        if self.size == 1:
            return float(self.reshape(-1)[0])
        raise TypeError("only size-1 arrays can be converted")

    def round(self, *a, **k):
        return around(self, *a, **k)

    def __deepcopy__(self, memo):
        return self.copy()

    def __setitem__(self, key, value):
        # a float ndarray parses a string assigned into it (URDF attribute text): tokens of a symbolic document
        # denote their symbol, numerals parse as float()
        if isinstance(value, str) and self.dtype == object:
            value = parse_number_text(value)
        _np.ndarray.__setitem__(self, key, value)

    # numpy's default any/all on object arrays use python truthiness of each cell pairwise
    def any(self, *a, **k):
        if self.dtype != object:
            return _np.ndarray.any(self.view(_np.ndarray), *a, **k)
        return any_(self)

    def all(self, *a, **k):
        if self.dtype != object:
            return _np.ndarray.all(self.view(_np.ndarray), *a, **k)
        return all_(self)

    def dot(self, other):
        return dot(self, other)


_NUMERIC = (int, float, Fraction, _np.integer, _np.floating)


class SymTok(str):
    """a token '@name' of a symbolic document: text that parses (float()) to the real number bound to it"""
    table = {}

    @property
    def sr(self):
        try:
            return SymTok.table[str(self).strip()]
        except KeyError:
            raise EngineError("unbound document token %r" % str(self))


def parse_number_text(x):
    """float(text) for attribute text: '@tok' -> its symbol, a numeral -> its float value"""
    t = x.strip()
    if t.startswith('@'):
        return SymTok(t).sr
    return SR.const(float(t))


def _destring(obj):
    if isinstance(obj, str):
        return parse_number_text(obj)
    if isinstance(obj, (list, tuple)):
        return [_destring(x) for x in obj]
    return obj


def _has_str(obj, depth=0):
    if isinstance(obj, str):
        return True
    if isinstance(obj, (list, tuple)) and depth < 4:
        return any(_has_str(x, depth + 1) for x in obj)
    return False


def _lift_cell(x):
    if isinstance(x, (SR, SB, Dual)):
        return x
    if isinstance(x, (bool, _np.bool_)):
        return x
    if isinstance(x, _NUMERIC):
        return SR.const(x)
    if isinstance(x, _np.ndarray) and x.ndim == 0:
        return _lift_cell(x.item())
    return x


def S(a):
    """sanitize: an ndarray -> SArr with every numeric cell lifted to SR (non-numeric cells kept)"""
    if isinstance(a, (SR, SB, Dual)):
        return a
    if not isinstance(a, _np.ndarray):
        return a
    if a.dtype == object:
        out = a if isinstance(a, SArr) else a.view(SArr)
        if out.size == 0:
            return out
        flat = out.reshape(-1) if out.flags['C_CONTIGUOUS'] else None
        if flat is not None and _np.shares_memory(flat, out):
            for i in range(flat.size):
                c = flat[i]
                if not isinstance(c, (SR, SB, Dual)):
                    flat[i] = _lift_cell(c)
        else:
            it = _np.nditer(out, flags=['multi_index', 'refs_ok'], op_flags=['readwrite'])
            for _ in it:
                idx = it.multi_index
                c = out[idx]
                if not isinstance(c, (SR, SB, Dual)):
                    out[idx] = _lift_cell(c)
        return out
    if a.dtype.kind in 'fiu':
        out = _np.empty(a.shape, dtype=object)
        flat_in = a.reshape(-1)
        flat = out.reshape(-1)
        for i in range(flat_in.size):
            flat[i] = SR.const(flat_in[i].item())
        return out.view(SArr)
    return a


def _has_sym(obj, depth=0):
    if isinstance(obj, (SR, SB, Dual)):
        return True
    if isinstance(obj, _np.ndarray):
        return obj.dtype == object
    if isinstance(obj, (list, tuple)) and depth < 6:
        return any(_has_sym(x, depth + 1) for x in obj)
    return False


def _is_int_dtype(dtype):
    if dtype is None:
        return False
    try:
        return _np.dtype(dtype).kind in 'iub'
    except TypeError:
        return False


def _all_ints(obj, depth=0):
    if isinstance(obj, (bool, _np.bool_)):
        return True
    if isinstance(obj, (int, _np.integer)):
        return True
    if isinstance(obj, _np.ndarray):
        return obj.dtype.kind in 'iub'
    if isinstance(obj, (list, tuple)) and depth < 6:
        return len(obj) > 0 and all(_all_ints(x, depth + 1) for x in obj)
    return False


def _non_numeric(obj, depth=0):
    if isinstance(obj, (str, bytes)) or obj is None:
        return True
    if isinstance(obj, (SR, SB, Dual)) or isinstance(obj, _NUMERIC) or isinstance(obj, (bool, _np.bool_)):
        return False
    if isinstance(obj, _np.ndarray):
        if obj.dtype == object:
            return any(_non_numeric(x, depth + 1) for x in obj.reshape(-1)[:8])
        return obj.dtype.kind not in 'fiub'
    if isinstance(obj, (list, tuple)) and depth < 6:
        return any(_non_numeric(x, depth + 1) for x in obj)
    return True   # arbitrary python objects (tm, ...)


def array(obj, dtype=None, copy=True, **kw):
    kw.pop('order', None)
    if SymTok.table and dtype is not None and not _is_int_dtype(dtype) and isinstance(obj, (list, tuple)) and _has_str(obj):
        obj = _destring(obj)        # np.array(['1.5', '@t'], dtype=float): numpy parses the strings
    if _is_int_dtype(dtype) and not _has_sym(obj):
        return _np.array(obj, dtype=dtype, **kw)
    if _non_numeric(obj):
        return _np.array(obj, dtype=dtype if dtype is not None else None, **kw)
    if dtype is None and _all_ints(obj):
        return _np.array(obj, **kw)
    if isinstance(obj, _np.ndarray) and obj.dtype == object:
        r = _np.array(obj, dtype=object, **kw)
    else:
        if isinstance(obj, _np.ndarray):
            r = _np.array(obj, dtype=object, **kw)
        else:
            # nested sequences possibly holding SR, 0-d/1-d arrays, numbers
            try:
                r = _np.array(obj, dtype=object, **kw)
            except ValueError:
                raise
            # numpy may keep inner ndarray cells if shapes are ragged; detect
    return S(r.view(SArr) if not isinstance(r, SArr) else r)


def asarray(obj, dtype=None, **kw):
    if isinstance(obj, _np.ndarray):
        if obj.dtype == object:
            return S(obj)
        if _is_int_dtype(dtype) or (dtype is None and obj.dtype.kind in 'iub'):
            return obj
        return S(obj)
    return array(obj, dtype=dtype)


def _shape(n):
    if isinstance(n, (tuple, list)):
        return tuple(int(x) for x in n)
    return (int(n),)


def zeros(shape, dtype=None, **kw):
    if _is_int_dtype(dtype):
        return _np.zeros(shape, dtype=dtype)
    r = _np.empty(_shape(shape), dtype=object)
    r.fill(T.ZERO)
    return r.view(SArr)


def ones(shape, dtype=None, **kw):
    if _is_int_dtype(dtype):
        return _np.ones(shape, dtype=dtype)
    r = _np.empty(_shape(shape), dtype=object)
    r.fill(T.ONE)
    return r.view(SArr)


def empty(shape, dtype=None, **kw):
    return zeros(shape, dtype)


def full(shape, fill_value, dtype=None, **kw):
    r = _np.empty(_shape(shape), dtype=object)
    r.fill(_lift_cell(fill_value))
    return r.view(SArr)


def zeros_like(a, dtype=None, **kw):
    return zeros(_np.shape(a), dtype)


def ones_like(a, dtype=None, **kw):
    return ones(_np.shape(a), dtype)


def eye(n, m=None, k=0, dtype=None, **kw):
    if isinstance(n, (tuple, list)):
        n = n[0]
    if _is_int_dtype(dtype):
        return _np.eye(n, m, k, dtype=dtype)
    return S(_np.eye(int(n), None if m is None else int(m), k))


def identity(n, dtype=None):
    return eye(n, dtype=dtype)


def diag(v, k=0):
    v = asarray(v)
    if v.ndim == 1:
        n = v.shape[0] + _bi.abs(k)
        r = zeros((n, n))
        for i in range(v.shape[0]):
            r[i + max(0, -k), i + max(0, k)] = v[i]
        return r
    return S(_np.diag(v, k))


def linspace(start, stop, num=50, endpoint=True, **kw):
    if not _has_sym([start, stop]):
        return S(_np.linspace(start, stop, num, endpoint=endpoint))
    start, stop = SR.lift(start), SR.lift(stop)
    div_ = (num - 1) if endpoint else num
    return array([start + (stop - start) * Fraction(i, div_) if div_ else start for i in range(num)], dtype=float)


def copy(a, **kw):
    if isinstance(a, _np.ndarray):
        return a.copy()
    return array(a, dtype=float)


# -- element-wise math ---------------------------------------------------------------------------

def _unary(name, pyfn):
    def f(x, *a, **k):
        if isinstance(x, (SR, Dual)):
            return getattr(x, name)()
        if isinstance(x, _np.ndarray) and x.dtype == object:
            x = S(x)
            out = _np.empty(x.shape, dtype=object)
            fi, fo = x.reshape(-1), out.reshape(-1)
            for i in range(fi.size):
                fo[i] = getattr(fi[i], name)()
            return out.view(SArr)
        if isinstance(x, (list, tuple)) and _has_sym(x):
            return f(array(x, dtype=float))
        if T.ctx() is not None and name != 'floor' and not a and not k:
            # under verification numeric constants stay exact: sin/cos/arccos/sqrt of a float constant is the
            # real-number value of that constant (an atom), not its IEEE rounding
            if isinstance(x, (float, int, _np.floating, _np.integer)) and not isinstance(x, (bool, _np.bool_)):
                return getattr(SR.const(x), name)()
            if isinstance(x, _np.ndarray) and x.dtype.kind in 'fiu' and x.size <= 4096:
                return f(S(x))
        return pyfn(x, *a, **k)
    f.__name__ = name
    return f


sqrt = _unary('sqrt', _np.sqrt)
sin = _unary('sin', _np.sin)
cos = _unary('cos', _np.cos)
tan = _unary('tan', _np.tan)
arccos = _unary('arccos', _np.arccos)
arcsin = _unary('arcsin', _np.arcsin)
floor = _unary('floor', _np.floor)
square = _unary('square', _np.square)


def absolute(x, *a, **k):
    if isinstance(x, (SR, Dual)):
        return _bi.abs(x)
    if isinstance(x, _np.ndarray) and x.dtype == object:
        x = S(x)
        out = _np.empty(x.shape, dtype=object)
        fi, fo = x.reshape(-1), out.reshape(-1)
        for i in range(fi.size):
            fo[i] = _bi.abs(fi[i])
        return out.view(SArr)
    return _np.abs(x, *a, **k)


abs = absolute  # noqa: A001  (np.abs)
fabs = absolute


def arctan2(y, x):
    if _has_sym([y, x]):
        return T.fn2('arctan2', SR.lift(y), SR.lift(x))
    return _np.arctan2(y, x)


def maximum(a, b):
    if _has_sym([a, b]):
        a, b = asarray(a), asarray(b)
        return S(_np.frompyfunc(lambda x, y: T.ite(T.le(y, x), x, y), 2, 1)(a, b))
    return _np.maximum(a, b)


def minimum(a, b):
    if _has_sym([a, b]):
        a, b = asarray(a), asarray(b)
        return S(_np.frompyfunc(lambda x, y: T.ite(T.le(x, y), x, y), 2, 1)(a, b))
    return _np.minimum(a, b)


def clip(a, lo, hi, **kw):
    if _has_sym([a, lo, hi]):
        return minimum(maximum(a, lo), hi)
    return _np.clip(a, lo, hi, **kw)


def around(a, decimals=0, out=None):
    if _has_sym(a):
        raise EngineError("np.around of a symbolic value is not modelled")
    return _np.around(a, decimals)


round = around  # noqa: A001
round_ = around


def isnan(x):
    if _has_sym(x):
        if isinstance(x, _np.ndarray):
            return _np.zeros(x.shape, dtype=bool)
        return False
    return _np.isnan(x)


def isinf(x):
    return isnan(x) if _has_sym(x) else _np.isinf(x)


def isfinite(x):
    if _has_sym(x):
        if isinstance(x, _np.ndarray):
            return _np.ones(x.shape, dtype=bool)
        return True
    return _np.isfinite(x)


# -- reductions / linear algebra ------------------------------------------------------------------

def dot(a, b, out=None):
    if _has_sym([a, b]):
        a, b = asarray(a), asarray(b)
        if a.ndim == 0 or b.ndim == 0:
            return a * b
        return S(_np.dot(a, b))
    return _np.dot(a, b)


def matmul(a, b):
    if _has_sym([a, b]):
        return S(_np.matmul(asarray(a), asarray(b)))
    return _np.matmul(a, b)


def cross(a, b, *args, **kw):
    if _has_sym([a, b]):
        a, b = asarray(a), asarray(b)
        if a.shape[-1] == 3 and b.shape[-1] == 3 and a.ndim == 1 and b.ndim == 1 and not args and not kw:
            return array([a[1] * b[2] - a[2] * b[1], a[2] * b[0] - a[0] * b[2], a[0] * b[1] - a[1] * b[0]],
                         dtype=float)
        return S(_np.cross(a, b, *args, **kw))
    return _np.cross(a, b, *args, **kw)


def trace(a, *args, **kw):
    return _np.trace(a, *args, **kw)


def sum(a, axis=None, **kw):  # noqa: A001
    if _has_sym(a):
        a = asarray(a)
        r = _np.sum(a, axis=axis)
        return S(r) if isinstance(r, _np.ndarray) else _lift_cell(r)
    return _np.sum(a, axis=axis, **kw)


def mean(a, axis=None, **kw):
    if _has_sym(a):
        a = asarray(a)
        n = a.size if axis is None else a.shape[axis]
        return sum(a, axis=axis) / n
    return _np.mean(a, axis=axis, **kw)


def transpose(a, *args):
    return _np.transpose(a, *args)


def any_(a, *args, **kw):
    if _has_sym(a):
        cells = asarray(a).reshape(-1)
        return T.sor(*[T.SB_lift(c) for c in cells])
    return _np.any(a, *args, **kw)


def all_(a, *args, **kw):
    if _has_sym(a):
        cells = asarray(a).reshape(-1)
        return T.sand(*[T.SB_lift(c) for c in cells])
    return _np.all(a, *args, **kw)


def array_equal(a, b, **kw):
    if _has_sym([a, b]):
        a, b = asarray(a), asarray(b)
        if a.shape != b.shape:
            return False
        return T.sand(*[T.eq(x, y) for x, y in zip(S(a).reshape(-1), S(b).reshape(-1))])
    return _np.array_equal(a, b, **kw)


def isclose(a, b, rtol=1e-05, atol=1e-08, **kw):
    if _has_sym([a, b]):
        a, b = _np.broadcast_arrays(asarray(a), asarray(b))
        a, b = S(_np.array(a, dtype=object)), S(_np.array(b, dtype=object))
        f = _np.frompyfunc(lambda x, y: T.le(_bi.abs(x - y), SR.const(atol) + SR.const(rtol) * _bi.abs(y)), 2, 1)
        return f(a, b)
    return _np.isclose(a, b, rtol=rtol, atol=atol, **kw)


def allclose(a, b, rtol=1e-05, atol=1e-08, **kw):
    if _has_sym([a, b]):
        r = isclose(a, b, rtol, atol)
        if isinstance(r, _np.ndarray):
            return T.sand(*[T.SB_lift(c) for c in r.reshape(-1)])
        return r
    return _np.allclose(a, b, rtol=rtol, atol=atol, **kw)


def where(cond, *args):
    if _has_sym([cond] + list(args)):
        if not args:
            raise EngineError("np.where(cond) with a symbolic condition")
        x, y = args
        c, x, y = _np.broadcast_arrays(_np.asarray(cond, dtype=object), asarray(x), asarray(y))
        f = _np.frompyfunc(lambda cc, xx, yy: T.ite(T.SB_lift(cc), xx, yy), 3, 1)
        return S(f(c, _np.array(x, dtype=object), _np.array(y, dtype=object)))
    return _np.where(cond, *args)


def _stack(fn):
    def f(tup, *a, **k):
        if _has_sym(list(tup)):
            return S(fn([asarray(t) if not isinstance(t, _np.ndarray) else t for t in tup], *a, **k))
        return fn(tup, *a, **k)
    return f


hstack = _stack(_np.hstack)
vstack = _stack(_np.vstack)
concatenate = _stack(_np.concatenate)
stack = _stack(_np.stack)
column_stack = _stack(_np.column_stack)


def det(a):
    a = asarray(a)
    n = a.shape[0]
    if a.dtype != object:
        return _np.linalg.det(a)
    if n == 1:
        return a[0, 0]
    if n == 2:
        return a[0, 0] * a[1, 1] - a[0, 1] * a[1, 0]
    tot = T.ZERO
    for j in range(n):
        if isinstance(a[0, j], SR) and a[0, j].is_const() and a[0, j].value == 0:
            continue
        minor = _np.delete(_np.delete(a, 0, axis=0), j, axis=1)
        term = a[0, j] * det(minor)
        tot = tot + term if j % 2 == 0 else tot - term
    return tot


def norm(x, ord=None, axis=None, **kw):
    if _has_sym(x):
        x = asarray(x)
        if ord not in (None, 2, 'fro') or axis is not None:
            raise EngineError("np.linalg.norm variant not modelled for symbolic input")
        tot = T.ZERO
        for c in S(x).reshape(-1):
            tot = tot + c * c
        return sqrt(tot)
    return _np.linalg.norm(x, ord=ord, axis=axis, **kw)


_UNINTERP = {'count': 0}


def _memo_uf(name, a, build):
    """uninterpreted library results are functions of their argument: equal arguments give the same result"""
    c = T.ctx()
    if c is None:
        return build()
    memo = c.fresh.setdefault(('ufmemo', name), [])
    cells = tuple(SR.lift(x) for x in asarray(a).reshape(-1))
    alg = c.ex.alg
    for (shape0, cells0, res0) in memo:
        if shape0 == a.shape and len(cells0) == len(cells):
            same = True
            for x, y in zip(cells, cells0):
                if x is y:
                    continue
                try:
                    nf = alg.nf_diff(x, y)[0] if alg is not None else {1: 1}
                except Exception:
                    nf = {1: 1}
                if nf:
                    same = False
                    break
            if same:
                return res0.copy()
    res = build()
    memo.append((a.shape, cells, res))
    return res.copy()


def _fresh_matrix(prefix, shape):
    _UNINTERP['count'] += 1
    k = _UNINTERP['count']
    r = _np.empty(shape, dtype=object)
    for idx in _np.ndindex(*shape):
        r[idx] = SR.var('%s%d_%s' % (prefix, k, '_'.join(map(str, idx))))
    return r.view(SArr)


def inv(a):
    a = asarray(a)
    if a.dtype != object:
        return _np.linalg.inv(a)
    n = a.shape[0]
    c = T.ctx()
    if n <= 4:
        d = det(a)
        adj = zeros((n, n))
        for i in range(n):
            for j in range(n):
                minor = _np.delete(_np.delete(a, i, axis=0), j, axis=1)
                cof = det(minor) if n > 1 else T.ONE
                adj[j, i] = cof if (i + j) % 2 == 0 else -cof
        return S(adj / d)
    # A4: inv(A) is some X with X A = A X = I when det A != 0 (not checked here: assumption)
    def build():
        x = _fresh_matrix('inv', (n, n))
        if c is not None:
            c.note_assumption('A4: numpy.linalg.inv(A) @ A == A @ inv(A) == I (for invertible A)')
            prod1 = S(_np.dot(x, a))
            prod2 = S(_np.dot(a, x))
            for i in range(n):
                for j in range(n):
                    c.assume(T.eq(prod1[i, j], 1 if i == j else 0), tag='A4')
                    c.assume(T.eq(prod2[i, j], 1 if i == j else 0), tag='A4')
        return x
    return _memo_uf('inv', a, build)


def pinv(a, *args, **kw):
    a = asarray(a)
    if a.dtype != object:
        return _np.linalg.pinv(a, *args, **kw)
    c = T.ctx()

    def build():
        x = _fresh_matrix('pinv', (a.shape[1], a.shape[0]))
        if c is not None:
            c.note_assumption('A4: numpy.linalg.pinv(A) is an uninterpreted (deterministic) matrix of the transposed shape')
            hook = getattr(c, 'pinv_hook', None)
            if hook is not None:
                hook(a, x)
        return x
    return _memo_uf('pinv', a, build)


def solve(a, b):
    a, b = asarray(a), asarray(b)
    if a.dtype != object and b.dtype != object:
        return _np.linalg.solve(a, b)
    return S(_np.dot(inv(a), b))


def lstsq(a, b, rcond=None):
    a, b = asarray(a), asarray(b)
    if a.dtype != object and b.dtype != object:
        return _np.linalg.lstsq(a, b, rcond=rcond)
    if a.ndim != 2 or a.shape[0] != a.shape[1]:
        raise EngineError("np.linalg.lstsq is modelled only for square (invertible) systems")
    c = T.ctx()
    if c is not None:
        c.note_assumption('numpy.linalg.lstsq(A, B) on a square invertible A returns the exact solution inv(A) B')
    return (S(_np.dot(inv(a), b)), None, a.shape[0], None)


class _Linalg:
    lstsq = staticmethod(lstsq)
    norm = staticmethod(norm)
    det = staticmethod(det)
    inv = staticmethod(inv)
    pinv = staticmethod(pinv)
    solve = staticmethod(solve)

    def __getattr__(self, name):
        real = getattr(_np.linalg, name)

        def guard(*a, **k):
            if _has_sym(list(a)):
                raise EngineError("np.linalg.%s is not modelled for symbolic input" % name)
            return real(*a, **k)
        return guard if callable(real) else real


linalg = _Linalg()

pi = T.PI
inf = float('inf')
ndarray = _np.ndarray
float64 = _np.float64
newaxis = _np.newaxis


def shares_memory(a, b):
    return _np.shares_memory(a, b)


_OVERRIDES = dict(globals())


class NpProxy:
    """module-like object bound to the name `np` in transformed modules"""

    def __init__(self):
        self.__dict__['_taint_checked'] = 0

    def __getattr__(self, name):
        if name == 'any':
            return any_
        if name == 'all':
            return all_
        if name in ('Inf', 'Infinity', 'PINF', 'float', 'int', 'bool', 'object'):
            # removed NumPy aliases must keep failing as they do natively
            return getattr(_np, name)
        if name in _OVERRIDES and not name.startswith('_') and name not in ('math', 'Fraction', 'T', 'SR', 'SB',
                                                                           'Dual', 'EngineError', 'SArr', 'S'):
            return _OVERRIDES[name]
        real = getattr(_np, name)
        if callable(real) and not isinstance(real, type):
            def guarded(*a, **k):
                r = real(*a, **k)
                if isinstance(r, _np.ndarray) and r.dtype == object:
                    return S(r)
                return r
            guarded.__name__ = name
            return guarded
        return real


np_proxy = NpProxy()
