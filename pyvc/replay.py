"""Replay of a counterexample against the NATIVE code (no transform, Numba and all).

usage: python -m pyvc.replay <replay.json>
exit 1: the contract clause fails on the native code at the witness (violation reproduced)
exit 0: no clause fails natively at the witness          exit 2: witness cannot be replayed
"""
import sys
import os
import json
import traceback

ROOT = os.path.dirname(os.path.dirname(os.path.abspath(__file__)))
sys.path.insert(0, ROOT)


def search(path, n):
    """the verifier refuted an obligation but its counter-model does not reproduce natively (it may assign
    impossible values to symbols standing for callee results): look for a failing input among n random inputs
    that satisfy the contract's requires, running the NATIVE code with the contract's concrete clauses"""
    import random
    rec = json.load(open(path))
    repo = rec.get('repo') or os.environ.get('PYVC_REPO', '/repo')
    if repo != '/repo':
        sys.path.insert(0, repo)
    from pyvc.contract import REGISTRY, G, Reject
    from pyvc import run as _run
    _run.load_contracts()
    import importlib
    c = REGISTRY[rec['contract']]()
    fn = None
    if c.target:
        modname, qual = c.target.split(':')
        obj = importlib.import_module(modname)
        for q in qual.split('.'):
            obj = getattr(obj, q)
        fn = obj
    rng = random.Random(int(os.environ.get('VERIF_SEED', '0') or 0) + 12345)
    tried = 0
    for _ in range(20 * n):
        if tried >= n:
            break
        g = G('sample', rng=rng)
        try:
            args, kwargs = c.setup(g)
            # contracts that declare their inputs in run(): execute run in sample mode on the native code
            g.mode = 'sample'
            env_probe = G('sample', rng=rng, env=g.env)
            res = c.run(env_probe, fn, args, kwargs)
            env = dict(env_probe.env)
        except Reject:
            continue
        except Exception:
            env = dict(g.env)
        tried += 1
        g2 = G('concrete', env=env, tol=c.tol)
        try:
            args, kwargs = c.setup(g2)
            res = c.run(g2, fn, args, kwargs)
            c.post(g2, res, args, kwargs)
        except Reject:
            continue
        except NotImplementedError:
            # the contract has no concrete mode for this clause (symbolic-only harness): nothing can be replayed
            print('replay-search: contract cannot be run natively (no concrete mode)')
            return 0
        except Exception as e:
            if isinstance(e, tuple(c.expect_raises)):
                continue
            g2.failures.append(('native code raised %s' % type(e).__name__, str(e)[:200]))
        if g2.failures:
            rec['witness'] = env
            rec['witness_source'] = 'random search over the contract inputs after the solver model did not reproduce'
            json.dump(rec, open(path, 'w'), indent=1, default=str)
            print('replay-search: failing input found after %d tries' % tried)
            for nm, d in g2.failures[:6]:
                print('replay: FAILS natively: %s -- %s' % (nm, d))
            return 1
    print('replay-search: no failing input among %d random inputs' % tried)
    return 0


def main(path):
    rec = json.load(open(path))
    repo = rec.get('repo') or os.environ.get('PYVC_REPO', '/repo')
    if repo != '/repo':
        # the editable install points at /repo; a scratch copy is put in front of it
        sys.path.insert(0, repo)
    from pyvc.contract import REGISTRY, G, Reject
    from pyvc import run as _run
    _run.load_contracts()
    import importlib
    cls = REGISTRY[rec['contract']]
    c = cls()
    w = rec.get('witness')
    if not w:
        print('replay: no witness in file; obligation: %s' % rec['obligation'])
        return 2
    g = G('concrete', env=w, tol=c.tol)
    try:
        args, kwargs = c.setup(g)
    except Reject as e:
        print('replay: witness rejected by requires (%s)' % e)
        return 2
    except KeyError as e:
        print('replay: witness lacks input %s' % e)
        return 2
    fn = None
    if c.target:
        modname, qual = c.target.split(':')
        obj = importlib.import_module(modname)
        for p in qual.split('.'):
            obj = getattr(obj, p)
        fn = obj
    print('replay: contract %s, obligation %r' % (rec['contract'], rec['obligation']))
    print('replay: inputs %s' % json.dumps({k: w[k] for k in list(w)[:24]}))
    try:
        res = c.run(g, fn, args, kwargs)
    except Reject as e:
        print('replay: witness cannot be replayed (%s)' % e)
        return 2
    except NotImplementedError:
        print('replay: contract cannot be run natively (no concrete mode)')
        return 2
    except Exception as e:
        if isinstance(e, tuple(c.expect_raises)):
            print('replay: listed exception raised natively: %r' % e)
            return 0
        print('replay: native code raised %s: %s' % (type(e).__name__, e))
        traceback.print_exc(limit=4)
        return 1
    try:
        c.post(g, res, args, kwargs)
    except Reject:
        return 2
    except NotImplementedError:
        print('replay: contract clauses cannot be evaluated natively (no concrete mode)')
        return 2
    if g.failures:
        for nm, d in g.failures[:10]:
            print('replay: FAILS natively: %s -- %s' % (nm, d))
        return 1
    print('replay: %d numeric checks passed natively at this witness' % g.checked)
    return 0


def probes(prop, outdir, only=None):
    """bounded stand-in: run the contracts' listed boundary inputs (`probes`) on the NATIVE code with the
    contracts' concrete clauses.  Prints one line per failing probe; exit 1 if any fails."""
    import re
    repo = os.environ.get('PYVC_REPO', '/repo')
    if repo != '/repo':
        sys.path.insert(0, repo)
    from pyvc.contract import REGISTRY, G, Reject
    from pyvc import run as _run
    _run.load_contracts()
    import importlib
    n_run = n_fail = 0
    for name in _run.contracts_for(prop):
        if only and not re.search(only, name):
            continue
        c = REGISTRY[name]()
        plist = c.probes() if callable(getattr(c, 'probes', None)) else (getattr(c, 'probes', None) or [])
        if not plist:
            continue
        fn = None
        if c.target:
            modname, qual = c.target.split(':')
            obj = importlib.import_module(modname)
            for q in qual.split('.'):
                obj = getattr(obj, q)
            fn = obj
        for k, env in enumerate(plist):
            n_run += 1
            g = G('concrete', env=dict(env), tol=c.tol)
            fails = []
            try:
                args, kwargs = c.setup(g)
                res = c.run(g, fn, args, kwargs)
                c.post(g, res, args, kwargs)
                fails = g.failures
            except Reject:
                continue
            except Exception as e:
                if not isinstance(e, tuple(c.expect_raises)):
                    fails = [('native code raised %s' % type(e).__name__, str(e)[:200])]
            if fails:
                n_fail += 1
                os.makedirs(outdir, exist_ok=True)
                path = os.path.join(outdir, '%s_probe%d.json' % (name, k))
                json.dump(dict(property=prop, contract=name, obligation=fails[0][0], witness=env, repo=repo,
                               backend='bounded native probe', native_replay=dict(confirmed=True, output=str(fails[:4]))),
                          open(path, 'w'), indent=1, default=str)
                print('PROBE-FAIL %s %s :: %s -- %s' % (name, path, fails[0][0], fails[0][1][:160]))
    print('probes: %d run, %d failed' % (n_run, n_fail))
    return 1 if n_fail else 0


if __name__ == '__main__':
    if sys.argv[1] == '--probes':
        sys.exit(probes(sys.argv[2], sys.argv[3], sys.argv[4] if len(sys.argv) > 4 else None))
    if sys.argv[1] == '--search':
        sys.exit(search(sys.argv[3], int(sys.argv[2])))
    sys.exit(main(sys.argv[1]))
