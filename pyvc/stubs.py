"""Modular verification of the layers above L0: callee contracts instead of callee bodies.

`MatrixExp3` / `MatrixLog3` (and the 6-D versions) are replaced, in the shadow module, by stubs that
  (i)  emit the callee's precondition as an obligation of the caller (rotation block in SO(3), skew input),
  (ii) return a fresh result that is known only through the callee's contract, which C01 proves:
         MatrixExp3(hat v)  -> some rotation matrix  Rq(e), e a fresh unit quaternion   [R = ExpLib3(v)]
         MatrixLog3(R)      -> hat(l), l a fresh 3-vector                               [ExpLib3(l) ~ R, |l| <= pi]
       and record the pair in the path's ghost registry (v <-> R), memoised on the argument terms so that
       the stubs are deterministic functions, like the code they stand for.
The coherence invariant of `tm` (C03) is then a statement about ghost links.
"""
import numpy as _np
from . import terms as T
from .terms import SR
from . import npx, spec as S


class Ghost:
    """path-scoped registry of exp/log pairs"""

    def __init__(self):
        self.exp = []     # (v cells tuple, R 3x3 array)
        self.log = []     # (R cells tuple, v cells tuple)
        self.n = 0
        self.cutoff_hits = []   # round-trip lemmas that took the library's 1e-6 cut-off branch on this path
        self.roundtrip = True   # apply the C01 round-trip lemmas exp(log R) / log(exp v)
        self.body_exp = False   # unregistered arguments: execute the real body instead of returning a fresh result
        self.body_log = False
        self.real_depth = 0     # > 0: inside a real body, callee stubs are bypassed
        self.log6 = []          # (T cells, twist-matrix cells)

    def fresh_unit_quat(self, ctx, alg, tag):
        self.n += 1
        names = ['%s%d_%d' % (tag, self.n, i) for i in range(4)]
        q = [SR.var(n) for n in names]
        tot = T.ZERO
        for x in q:
            tot = tot + x * x
        ctx.assume(T.eq(tot, 1), tag='callee contract: result is a rotation (unit quaternion)')
        rest = T.ONE - q[1] * q[1] - q[2] * q[2] - q[3] * q[3]
        if alg is not None:
            alg.add_var_square_rule(q[0], rest, '%s unit' % names[0])
        return q


def ghost_of(ctx):
    g = getattr(ctx, 'ghost', None)
    if g is None:
        g = ctx.ghost = Ghost()
    return g


def _cells(a):
    return tuple(SR.lift(x) for x in _np.asarray(a, dtype=object).reshape(-1))


def _same(alg, xs, ys):
    if len(xs) != len(ys):
        return False
    for x, y in zip(xs, ys):
        if x is y:
            continue
        try:
            nf, _, _, _ = alg.nf_diff(x, y)
        except Exception:
            return False
        if nf:
            return False
    return True


def linked(ctx, alg, R, v):
    """is (v, R) a registered exp pair or a registered log pair?  returns 'exp' | 'log' | None"""
    gh = ghost_of(ctx)
    rc, vc = _cells(R), _cells(v)
    if all(x.is_const() and x.value == 0 for x in vc):
        I = _cells(_np.eye(3))
        if _same(alg, rc, tuple(SR.lift(x) for x in I)):
            return 'exp'
    for (v0, R0) in gh.exp:
        if _same(alg, vc, v0) and _same(alg, rc, _cells(R0)):
            return 'exp'
    for (R0, v0) in gh.log:
        if _same(alg, vc, v0) and _same(alg, rc, R0):
            return 'log'
    return None


def is_log_of(ctx, alg, R, v):
    """is v registered as MatrixLog3 of R on this path?"""
    gh = ghost_of(ctx)
    rc, vc = _cells(R), _cells(v)
    return any(_same(alg, vc, v0) and _same(alg, rc, R0) for (R0, v0) in gh.log)


def register_exp(ctx, v, R):
    ghost_of(ctx).exp.append((_cells(v), npx.S(_np.array(R, dtype=object))))


def register_log(ctx, R, v):
    ghost_of(ctx).log.append((_cells(R), _cells(v)))


def make_stubs(mr, counters=None):
    """returns dict name -> stub, closing over the real module (for the helpers that stay executed)"""
    counters = counters if counters is not None else {}

    def MatrixExp3(so3mat):
        ctx = T.ctx()
        if ctx is None or not npx._has_sym(so3mat) or ghost_of(ctx).real_depth > 0:
            return mr.__dict__['__real_MatrixExp3'](so3mat)
        alg = ctx.ex.alg
        counters['MatrixExp3'] = counters.get('MatrixExp3', 0) + 1
        m = npx.asarray(so3mat)
        # callee precondition: a 3x3 skew-symmetric matrix
        ctx.oblige('requires of MatrixExp3: argument is 3x3', T.TRUE if m.shape == (3, 3) else T.FALSE,
                   kind='callee-requires')
        for (i, j) in ((0, 0), (1, 1), (2, 2)):
            ctx.oblige('requires of MatrixExp3: skew (diagonal zero)', T.eq(m[i, j], 0), kind='callee-requires')
        for (i, j) in ((0, 1), (0, 2), (1, 2)):
            ctx.oblige('requires of MatrixExp3: skew', T.eq(m[i, j] + m[j, i], 0), kind='callee-requires')
        v = _cells(S.vee3(m))
        if all(x.is_const() and x.value == 0 for x in v):
            return npx.eye(3)          # ExpLib3(0) = I  (contract, cut-off branch)
        gh = ghost_of(ctx)
        for (v0, R0) in gh.exp:
            if _same(alg, v, v0):
                return R0.copy()
        if gh.roundtrip:
            # C01 lemma ExpLog3_c: MatrixExp3(MatrixLog3(X)) = X exactly when |log X| >= 1e-6; otherwise the
            # result is I (cut-off) and X is within 5e-6 of I
            for (R0, v0) in gh.log:
                if _same(alg, v, v0):
                    X = npx.S(_np.array(R0, dtype=object).reshape(3, 3))
                    th = S.norm(list(v0))
                    if th < S.CUTOFF:
                        gh.cutoff_hits.append('exp(log X) with |log X| < 1e-6')
                        I = npx.eye(3)
                        for i in range(3):
                            for j in range(3):
                                ctx.assume(T.le(abs(X[i, j] - I[i, j]), 5e-6), tag='C01 lemma: X within 5e-6 of I')
                        gh.exp.append((v, I))
                        return I.copy()
                    gh.exp.append((v, X))
                    return X.copy()
        if gh.body_exp:
            gh.real_depth += 1
            try:
                R = mr.__dict__['__real_MatrixExp3'](m)
            finally:
                gh.real_depth -= 1
            gh.exp.append((v, npx.S(_np.array(R, dtype=object))))
            return R
        e = gh.fresh_unit_quat(ctx, alg, 'e')
        R = S.Rq(e)
        gh.exp.append((v, R))
        ctx.note_assumption('callee contract (proved in C01): MatrixExp3(hat v) is the rotation ExpLib3(v)')
        return R.copy()

    def MatrixLog3(Rm):
        ctx = T.ctx()
        if ctx is None or not npx._has_sym(Rm) or ghost_of(ctx).real_depth > 0:
            return mr.__dict__['__real_MatrixLog3'](Rm)
        alg = ctx.ex.alg
        counters['MatrixLog3'] = counters.get('MatrixLog3', 0) + 1
        Rm = npx.asarray(Rm)
        # callee precondition: R in SO(3)
        RtR = npx.dot(Rm.T, Rm)
        for i in range(3):
            for j in range(i, 3):
                ctx.oblige('requires of MatrixLog3: R^T R = I [%d,%d]' % (i, j), T.eq(RtR[i, j], 1 if i == j else 0),
                           kind='callee-requires', pair=(SR.lift(RtR[i, j]), SR.const(1 if i == j else 0)))
        d = S.det3(Rm)
        ctx.oblige('requires of MatrixLog3: det R = 1', T.eq(d, 1), kind='callee-requires', pair=(SR.lift(d), T.ONE))
        rc = _cells(Rm)
        if all(x.is_const() and x.value == (1 if k in (0, 4, 8) else 0) for k, x in enumerate(rc)):
            return npx.zeros((3, 3))        # log(I) = 0 (contract, identity branch)
        gh = ghost_of(ctx)
        for (R0, v0) in gh.log:
            if _same(alg, rc, R0):
                return S.hat3(list(v0))
        if gh.roundtrip:
            # C01 lemma LogExp3_c: MatrixLog3(MatrixExp3(hat v)) = hat v exactly when 1e-6 <= |v| < pi
            for (v0, R0) in gh.exp:
                if _same(alg, rc, _cells(R0)) and not all(x.is_const() for x in v0):
                    th = S.norm(list(v0))
                    if th >= S.CUTOFF and th < T.PI:
                        gh.log.append((rc, tuple(v0)))
                        return S.hat3(list(v0))
                    break
        if gh.body_log:
            gh.real_depth += 1
            try:
                L = mr.__dict__['__real_MatrixLog3'](Rm)
            finally:
                gh.real_depth -= 1
            gh.log.append((rc, _cells(S.vee3(L))))
            return L
        gh.n += 1
        v = tuple(SR.var('l%d_%d' % (gh.n, i)) for i in range(3))
        gh.log.append((rc, v))
        ctx.note_assumption('callee contract (proved in C01): MatrixLog3(R) = hat(l) with ExpLib3(l) = R to 5e-6, |l| <= pi')
        return S.hat3(list(v))

    def MatrixLog6(Tm):
        ctx = T.ctx()
        if ctx is None or not npx._has_sym(Tm) or ghost_of(ctx).real_depth > 0:
            return mr.__dict__['__real_MatrixLog6'](Tm)
        alg = ctx.ex.alg
        Tm = npx.asarray(Tm)
        Rm = Tm[0:3, 0:3]
        RtR = npx.dot(Rm.T, Rm)
        for i in range(3):
            for j in range(i, 3):
                ctx.oblige('requires of MatrixLog6: R^T R = I [%d,%d]' % (i, j), T.eq(RtR[i, j], 1 if i == j else 0),
                           kind='callee-requires', pair=(SR.lift(RtR[i, j]), SR.const(1 if i == j else 0)))
        d = S.det3(Rm)
        ctx.oblige('requires of MatrixLog6: det R = 1', T.eq(d, 1), kind='callee-requires', pair=(SR.lift(d), T.ONE))
        for j in range(4):
            ctx.oblige('requires of MatrixLog6: last row 0 0 0 1', T.eq(Tm[3, j], 1 if j == 3 else 0), kind='callee-requires')
        tc = _cells(Tm)
        gh = ghost_of(ctx)
        for (T0, L0) in gh.log6:
            if _same(alg, tc, T0):
                return npx.S(_np.array(L0, dtype=object).reshape(4, 4)).copy()
        gh.n += 1
        V = [SR.var('tw%d_%d' % (gh.n, i)) for i in range(6)]
        L = S.hat6(V)
        gh.log6.append((tc, _cells(L)))
        ctx.note_assumption('callee contract (proved in C01): MatrixLog6(T) = L with MatrixExp6(L) = T (5e-6; exact outside the cut-off)')
        return L.copy()

    def MatrixExp6(se3mat):
        ctx = T.ctx()
        if ctx is None or not npx._has_sym(se3mat) or ghost_of(ctx).real_depth > 0:
            return mr.__dict__['__real_MatrixExp6'](se3mat)
        alg = ctx.ex.alg
        gh = ghost_of(ctx)
        m = npx.asarray(se3mat)
        mc = _cells(m)
        if gh.roundtrip:
            for (T0, L0) in gh.log6:
                if _same(alg, mc, L0):
                    X = npx.S(_np.array(T0, dtype=object).reshape(4, 4))
                    th = S.norm([m[2, 1], m[0, 2], m[1, 0]])
                    if th < S.CUTOFF:
                        if th > 0:
                            gh.cutoff_hits.append('exp6(log6 T) with 0 < |rotation part of log6 T| < 1e-6')
                        break
                    return X.copy()
        gh.real_depth += 1
        try:
            return mr.__dict__['__real_MatrixExp6'](m)
        finally:
            gh.real_depth -= 1

    return {'MatrixExp3': MatrixExp3, 'MatrixLog3': MatrixLog3, 'MatrixLog6': MatrixLog6, 'MatrixExp6': MatrixExp6}


def install(modname='basic_robotics.modern_robotics_numba.modern_high_performance'):
    from . import loader
    mr = loader.load(modname)
    if '__real_MatrixExp3' in mr.__dict__:
        return mr
    mr.__dict__['__real_MatrixExp3'] = mr.MatrixExp3
    mr.__dict__['__real_MatrixLog3'] = mr.MatrixLog3
    mr.__dict__['__real_MatrixExp6'] = mr.MatrixExp6
    mr.__dict__['__real_MatrixLog6'] = mr.MatrixLog6
    counters = {}
    for k, f in make_stubs(mr, counters).items():
        setattr(mr, k, f)
    mr.__dict__['__stub_counters'] = counters
    return mr
