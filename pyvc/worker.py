"""Verification of one contract: explore paths of the real (transformed) function, discharge obligations."""
import os
import re
import sys
import time
import random
import traceback
import numpy as _np

from . import terms as T
from .terms import SR, SB, EngineError, EvalUndefined, snot
from . import solve, loader
from .poly import Algebra
from .explore import Explorer, PathCtx, SampleEval, AssumeFalse, PathLimit
from .contract import G, Reject, REGISTRY


def make_samples(contract, n, seed):
    rng = random.Random(seed)
    out = []
    tries = 0
    while len(out) < n and tries < 40 * n + 50:
        tries += 1
        g = G('sample', rng=rng)
        try:
            contract.setup(g)
        except Reject:
            continue
        except (ZeroDivisionError, ValueError, FloatingPointError):
            continue
        out.append(dict(g.env))
    return out


def _margin(goal, se):
    """> 0 : goal violated by that (relative) margin at the sample; <= 0: holds; None: cannot say"""
    op = goal.op
    if op in ('<', '<=', '=='):
        a = se.get(goal.args[0])
        b = se.get(goal.args[1])
        if a != a or b != b:
            return None
        sc = max(1.0, abs(a), abs(b))
        if op == '==':
            return abs(a - b) / sc
        if op == '<=':
            return (a - b) / sc
        return (a - b) / sc if a - b > 0 else (1e-300 if a == b else (a - b) / sc)
    if op == 'and':
        ms = [_margin(x, se) for x in goal.args]
        if any(m is None for m in ms):
            return None
        return max(ms)
    if op == 'or':
        ms = [_margin(x, se) for x in goal.args]
        if any(m is None for m in ms):
            return None
        return min(ms)
    if op == 'not':
        inner = goal.args[0]
        if inner.op == '==':
            a = se.get(inner.args[0])
            b = se.get(inner.args[1])
            if a != a or b != b:
                return None
            return 1.0 if a == b else -1.0
        m = _margin(inner, se)
        return None if m is None else -m
    if op == 'T':
        return -1.0
    if op == 'F':
        return 1.0
    v = se.get(goal)
    return 1.0 if not v else -1.0


def _has_transcendental(terms):
    for n in T.subterms(terms):
        if isinstance(n, SR) and ((n.op == 'fn' and n.extra in ('sin', 'cos', 'tan', 'arccos', 'arcsin')) or n.op == 'fn2'):
            return True
        if isinstance(n, SR) and n.op == 'v' and n.extra == 'pi':
            return True
    return False


REFUTE_MARGIN = 1e-7


def _well_conditioned(env):
    """solver models with denormal-scale or huge magnitudes are not trusted under float evaluation"""
    for v in env.values():
        a = abs(float(v))
        if a != 0.0 and (a < 1e-12 or a > 1e9):
            return False
    return True


def relevant_hyps(hyps, goal, always=()):
    """hypotheses connected to the goal through shared symbols (transitively)"""
    gv = set(T.free_vars([goal]))
    items = [(h, set(T.free_vars([h]))) for h in hyps]
    used = [False] * len(items)
    changed = True
    while changed:
        changed = False
        for i, (h, vs) in enumerate(items):
            if not used[i] and (vs & gv or not vs):
                used[i] = True
                gv |= vs
                changed = True
    return [h for (h, _), u in zip(items, used) if u]


def discharge(ob, alg, live, budget, tier):
    """-> dict(status=proved|refuted|undecided, backend, s, witness?, detail?)"""
    t0 = time.time()
    goal = ob.goal

    def done(status, backend, **kw):
        d = dict(status=status, backend=backend, s=round(time.time() - t0, 4))
        d.update(kw)
        return d

    if goal.op == 'T':
        return done('proved', 'trivial')
    if any(h is goal for h in ob.hyps):
        return done('proved', 'hypothesis')
    # 1. numeric refutation on the path's samples (cheap, gives a witness)
    for se in live:
        try:
            m = _margin(goal, se)
        except (EvalUndefined, OverflowError, ZeroDivisionError, ValueError):
            m = None
        if m is not None and m > REFUTE_MARGIN:
            return done('refuted', 'sample-evaluation', witness=dict(se.env), detail='margin %.3g' % m)
    # 1b. the path's samples have no values for symbols that stand for callee results (fresh rotations / logarithms of the
    #     L0 contracts): complete them with random admissible values -- any value is allowed by the callee contract, so a
    #     violation found this way is a counter-model at the contract level (confirmed or not by the native replay/search)
    if live and goal.op != 'T':
        names = set(T.free_vars([goal] + list(ob.hyps)))
        missing = [n for n in names if n not in live[0].env and n != 'pi']
        if missing and len(missing) <= 64 and all(re.match(r'^(e\d+_[0-3]|l\d+_[0-2]|tw\d+_[0-5]|sol\d+_\d+|hv\d+_.*|quat\d+_[xyzw])$', n) for n in missing):
            import random as _rnd
            rng = _rnd.Random(len(ob.name) * 7919 + len(missing))
            from .explore import truth_level
            for se0 in live[:3]:
                for _try in range(4):
                    env = dict(se0.env)
                    groups = {}
                    for n in missing:
                        env[n] = rng.gauss(0, 1)
                        m = re.match(r'^(e\d+)_[0-3]$', n) or re.match(r'^(quat\d+)_[xyzw]$', n)
                        if m:
                            groups.setdefault(m.group(1), []).append(n)
                    for gname, members in groups.items():
                        if len(members) == 4:
                            nn = sum(env[x] ** 2 for x in members) ** 0.5
                            for x in members:
                                env[x] = env[x] / nn
                    se = SampleEval(env)
                    try:
                        if min([2] + [truth_level(h, se) for h in ob.hyps]) >= 1:
                            m = _margin(goal, se)
                            if m is not None and m > 1e-4:
                                return done('refuted', 'z3-model-free abstract sample (random values for callee results)',
                                            witness=dict(se0.env), detail='margin %.3g' % m)
                    except (EvalUndefined, OverflowError, ZeroDivisionError, ValueError):
                        pass
    # 2. ring identity
    ring_detail = None
    if ob.pair is not None and (goal.op == '==' or ob.tol is not None):
        eqh = [(h.args[0], h.args[1]) for h in ob.hyps if h.op == '==']
        r = solve.ring_prove_eq(alg, ob.pair[0], ob.pair[1], eq_hyps=eqh, check_cert=True)
        if r.status == 'proved':
            return done('proved', r.detail + ('(exact, stronger than the stated tolerance)' if ob.tol is not None else ''))
        ring_detail = r.status + ': ' + str(r.detail)[:200]
    if goal.op == 'F':
        # unconditional failure on a feasible path
        w = dict(live[0].env) if live else None
        if w is None:
            st, env = solve.z3_sat(list(ob.hyps), timeout_s=budget, alg=alg)
            if st == 'unsat':
                return done('proved', 'z3(path infeasible)')
            if st == 'sat':
                w = {k: float(v) for k, v in env.items()}
        return done('refuted', 'path-reachable', witness=w, detail='goal is False on this path')
    if budget <= 0:
        return done('undecided', 'skipped', detail='solver not run (clause listed as a known finding, or the failure budget of this contract is used up); ring: %s' % ring_detail)
    # 3. SMT portfolio: structured (term-level) export and canonical (polynomial) export, z3 then cvc5
    hyps = relevant_hyps(ob.hyps, goal)
    first = min(budget, 8.0)
    solvers = []
    last_info = None
    t_smt = time.time()

    def remaining():
        # twice the budget bounds the whole portfolio for this obligation (it used to bound each solver call)
        return 2.0 * budget - (time.time() - t_smt)
    for style in ('term', 'canon'):
        if style == 'canon' and remaining() <= 0:
            break
        st, info, solver = solve.z3_check(hyps, goal, timeout_s=first, alg=alg if style == 'canon' else None)
        if st == 'proved':
            return done('proved', 'z3', axioms=info, export=style)
        if st == 'cex' and len(hyps) != len(ob.hyps):
            # a model of the relevance-filtered hypotheses is not a model of the path: ask again with all of them
            hyps = list(ob.hyps)
            st, info, solver = solve.z3_check(hyps, goal, timeout_s=first, alg=alg if style == 'canon' else None)
            if st == 'proved':
                return done('proved', 'z3(all hyps)', axioms=info, export=style)
        if st == 'cex' and ob.pair is not None:
            # prefer a counter-model with a clear margin (boundary models do not reproduce under float tolerances)
            for mg in (1e-3, 1e-5):
                st3, info3, _ = solve.z3_check(hyps, T.le(abs(ob.pair[0] - ob.pair[1]), mg), timeout_s=first,
                                               alg=alg if style == 'canon' else None)
                if st3 == 'cex':
                    info = info3
                    break
        if st == 'cex':
            # models of problems without transcendental atoms are exact: confirm with rational arithmetic
            try:
                ok_h = True
                se_f = SampleEval({k: float(v) for k, v in info.items()})
                from .explore import truth_level
                for h in hyps:
                    try:
                        if not T.exact_eval([h], info)[h.id]:
                            ok_h = False
                            break
                    except (EvalUndefined, ZeroDivisionError, TypeError, ValueError):
                        # not exactly evaluable (pi, irrational roots): must hold strictly under float evaluation
                        if truth_level(h, se_f) != 2:
                            ok_h = False
                            break
                ex = T.exact_eval([goal], info)
                if ok_h and not ex[goal.id]:
                    return done('refuted', 'z3-model(exact rational evaluation)',
                                witness={k: float(v) for k, v in info.items()},
                                witness_exact={k: str(v) for k, v in info.items()}, detail='exact counter-model')
            except (EvalUndefined, ZeroDivisionError, TypeError, ValueError):
                pass
            if not _has_transcendental(list(hyps) + [goal]):
                # linear/polynomial arithmetic with sqrt/abs/floor definitions and uninterpreted functions: the
                # exported problem is exactly the obligation, so the solver's `sat` is a genuine counter-model
                return done('refuted', 'z3-model(exact theory: no transcendental atoms)',
                            witness={k: float(v) for k, v in info.items()}, detail='counter-model of the exported problem')
            env = {k: float(v) for k, v in info.items()}
            try:
                se = SampleEval(env)
                from .explore import truth_level
                if min([2] + [truth_level(h, se) for h in ob.hyps]) == 2:
                    m = _margin(goal, se)
                    if m is not None and m > REFUTE_MARGIN and _well_conditioned(env):
                        return done('refuted', 'z3-model', witness=env, detail='margin %.3g' % m)
            except (EvalUndefined, OverflowError, ZeroDivisionError, ValueError):
                pass
            last_info = 'model not confirmed by float evaluation (spurious w.r.t. the real transcendental functions)'
            if len(hyps) != len(ob.hyps):
                st2, info2, solver2 = solve.z3_check(list(ob.hyps), goal, timeout_s=first,
                                                     alg=alg if style == 'canon' else None)
                if st2 == 'proved':
                    return done('proved', 'z3(all hyps)', axioms=info2, export=style)
            continue
        last_info = info
        if solver is not None:
            solvers.append((style, solver))
    for style, solver in solvers:
        if remaining() < 1.0:
            break
        r = solve.cvc5_check_solver(solver, timeout_s=min(remaining(), 30.0))
        if r == 'unsat':
            return done('proved', 'cvc5', export=style)
    if budget > first:
        for style, _ in solvers:
            if remaining() < 2.0:
                break
            st, info, solver = solve.z3_check(hyps, goal, timeout_s=remaining(), alg=alg if style == 'canon' else None)
            if st == 'proved':
                return done('proved', 'z3', axioms=info, export=style)
    return done('undecided', 'z3+cvc5', detail='%s; ring: %s' % (last_info, ring_detail))


def verify_contract(name, tier='quick', seed=0, repo=None, known=()):
    """runs in a forked worker.  returns a JSON-able dict"""
    t_start = time.time()
    out = dict(contract=name, obligations=[], paths=0, errors=[], assumptions=[], functions=[], rewrites={},
               stats={}, covers=0)
    try:
        loader.install(repo)
        cls = REGISTRY[name]
        c = cls()
        out['props'] = list(c.props())
        out['target'] = c.target
        out['shape_bound'] = c.shape_bound
        out['description'] = (c.description or c.__doc__ or '').strip()
        if hasattr(c, 'prepare'):
            c.prepare()
        fn = None
        if c.target:
            mod, owner, attr, fn = loader.resolve(c.target)
        targets = [c.target] if c.target else []
        targets += list(c.under_contract)
        for t in targets:
            out['functions'].append({'function': t, 'ast_sha1': loader.func_hash(t)})
        samples = make_samples(c, c.n_samples if tier == 'quick' else 3 * c.n_samples, seed)
        alg = Algebra()
        ex = Explorer(samples=samples, max_paths=c.max_paths, alg=alg, feas_timeout=getattr(c, 'feas_timeout', 3.0))
        budget = c.timeout if tier == 'quick' else 5 * c.timeout
        rules_box = []

        def body(ctx):
            g = G('symbolic', ctx=ctx, alg=alg)
            ctx.g = g
            args, kwargs = c.setup(g)
            if not rules_box:
                rules_box.append(list(g.rules))
            try:
                res = c.run(g, fn, args, kwargs)
            except (AssumeFalse, PathLimit, EngineError):
                raise
            except Exception as e:  # exception raised by the code under verification
                if isinstance(e, tuple(c.expect_raises)):
                    if hasattr(c, 'post_raises'):
                        c.post_raises(g, e, args, kwargs)
                    return
                tb = traceback.extract_tb(e.__traceback__)
                site = next(('%s:%d' % (f.filename.split('/')[-1], f.lineno) for f in reversed(tb)
                             if '/pyvc/' not in f.filename and 'numpy' not in f.filename), '?')
                ctx.oblige('no unexpected exception: %s: %s @ %s' % (type(e).__name__, str(e)[:80], site),
                           T.FALSE, kind='exception', info={'exception': type(e).__name__})
                return
            c.post(g, res, args, kwargs)

        bad_total = [0]

        def on_path(pi, p):
            if not p.live and not p.cut:
                # vacuity guard: the path must be reachable under requires
                st, env = solve.z3_sat(list(p.all_hyps()), timeout_s=10.0, alg=alg)
                if st == 'unsat':
                    p.cut = True
                    out['paths_pruned_late'] = out.get('paths_pruned_late', 0) + 1
                    return
                if st == 'sat':
                    try:
                        se = SampleEval({k: float(v) for k, v in env.items()})
                        from .explore import truth_level
                        if min([2] + [truth_level(h, se) for h in p.all_hyps()]):
                            p.live.append(se)
                    except (EvalUndefined, OverflowError, ZeroDivisionError, ValueError):
                        pass
                    out['covers_by_model'] = out.get('covers_by_model', 0) + 1
            if p.live:
                out['covers'] += 1
            pc_txt = [T.show(l, 3) for l in p.pc][:12]
            bad_bases = set()
            for ob in p.obligations:
                try:
                    b = budget
                    base = re.sub(r'\[[0-9, ]*\]$', '', ob.name)
                    if base in bad_bases:
                        b = min(b, 4.0)     # a sibling entry of the same clause already failed on this path
                    if bad_total[0] > 3:
                        b = min(b, 2.0)     # the contract already fails in several places: do not spend the budget on each
                    if bad_total[0] > 10:
                        b = 0.0             # ... and beyond 10 failures only the cheap steps (samples, ring) are tried
                    is_known = any(re.search(k, ob.name) for k in known)
                    if is_known:
                        b = 0.0     # clause listed as a known finding: samples and ring only, no solver runs
                    v = discharge(ob, alg, p.strict_live(), b, tier)
                except EngineError as e:
                    v = dict(status='error', backend='engine', s=0.0, detail=str(e)[:300])
                    is_known = False
                if v['status'] != 'proved' and not is_known:
                    bad_total[0] += 1
                    bad_bases.add(re.sub(r'\[[0-9, ]*\]$', '', ob.name))
                rec = dict(name=ob.name, kind=ob.kind, path=pi, pc=pc_txt, goal=T.show(ob.goal, 4)[:200])
                rec.update(v)
                if ob.kind == 'safety' and v['status'] == 'proved':
                    rec.pop('pc', None)
                out['obligations'].append(rec)

        paths = ex.run(body, on_path)
        out['paths'] = len([p for p in paths if not p.cut])
        out['paths_cut'] = len([p for p in paths if p.cut])
        out['assumptions'] = sorted(ex.assumption_notes)
        out['rewrites'] = {m: loader.REWRITES.get(m, []) for m in sorted(loader.REWRITES)}
        out['path_samples'] = [[T.show(l, 3) for l in p.pc][:8] for p in paths[:6]]
        out['no_cover_paths'] = [i for i, p in enumerate(paths) if not p.live and not p.cut]
    except PathLimit as e:
        out['errors'].append('path limit: %s' % e)
    except EngineError as e:
        out['errors'].append('engine error: %s' % e)
    except Exception as e:  # engine crash
        out['errors'].append('engine crash: %s\n%s' % (e, traceback.format_exc()[-1500:]))
    out['stats'] = dict(solve.STATS)
    out['wall_s'] = round(time.time() - t_start, 3)
    return out
