"""Library proxies (rewrite T3).  Each states the contract that is *assumed* for the library."""
import math as _math
import random as _random
import numpy as _np
from . import terms as T
from .terms import SR, Dual, EngineError
from . import npx


def _sym(x):
    return isinstance(x, (SR, Dual)) or (isinstance(x, _np.ndarray) and x.dtype == object)


class _MathX:
    pi = T.PI
    inf = _math.inf
    e = _math.e

    def __getattr__(self, name):
        real = getattr(_math, name)
        if not callable(real):
            return real

        def f(*a):
            if any(_sym(x) for x in a):
                a2 = [T.SR.lift(x) if not isinstance(x, Dual) else x for x in a]
                if name in ('sqrt', 'sin', 'cos', 'tan', 'floor'):
                    return getattr(a2[0], name)()
                if name == 'acos':
                    return a2[0].arccos()
                if name == 'asin':
                    return a2[0].arcsin()
                if name == 'atan2':
                    return T.fn2('arctan2', a2[0], a2[1])
                if name == 'fabs':
                    return abs(a2[0])
                if name in ('isinf', 'isnan'):
                    return False
                if name == 'isfinite':
                    return True
                if name == 'pow':
                    return a2[0] ** a[1]
                if name == 'ceil':
                    return -((-a2[0]).floor())
                if name in ('radians',):
                    return a2[0] * T.PI / 180
                if name in ('degrees',):
                    return a2[0] * 180 / T.PI
                raise EngineError("math.%s is not modelled for symbolic input" % name)
            return real(*a)
        return f


mathx = _MathX()


class _RandomX:
    """random.uniform(lo, hi) -> fresh symbol x with lo <= x <= hi (assumed); other functions are real"""

    def __init__(self):
        self.count = 0

    def uniform(self, lo, hi):
        c = T.ctx()
        if c is None or not getattr(c, 'symbolic_random', True):
            return _random.uniform(float(lo), float(hi))
        self.count += 1
        x = SR.var('rnd%d' % c.fresh_id('rnd'))
        c.assume(T.le(lo, x), tag='random.uniform range')
        c.assume(T.le(x, hi), tag='random.uniform range')
        return x

    def __getattr__(self, name):
        return getattr(_random, name)


randomx = _RandomX()


# ------------------------------------------------------------------------------------------------
# scipy

class RotationX:
    """A5: from_quat(q).as_matrix() = Rq(q/|q|) (scalar-last); from_matrix(R).as_quat() is some unit q
    with Rq(q) = R (fresh symbols + assumption)."""

    def __init__(self, q=None, mat=None):
        self.q = q
        self.mat = mat

    @staticmethod
    def from_quat(q):
        q = npx.asarray(q).reshape(-1)
        return RotationX(q=q)

    @staticmethod
    def from_matrix(m):
        return RotationX(mat=npx.asarray(m))

    def as_matrix(self):
        if self.mat is not None:
            return self.mat.copy()
        from .spec import Rq_scalar_last
        c = T.ctx()
        if c is not None:
            c.note_assumption('A5: scipy Rotation.from_quat(q).as_matrix() = Rq(q/|q|), scalar-last')
        x, y, z, w = [SR.lift(v) for v in self.q]
        n2 = x * x + y * y + z * z + w * w
        return Rq_scalar_last(x, y, z, w, n2)

    def as_quat(self):
        if self.q is not None:
            n = npx.norm(self.q)
            return self.q / n
        from .spec import Rq_scalar_last
        c = T.ctx()
        k = c.fresh_id('quat') if c is not None else 0
        q = npx.array([SR.var('quat%d_%s' % (k, a)) for a in 'xyzw'], dtype=float)
        if c is not None:
            c.note_assumption('A5: scipy Rotation.from_matrix(R).as_quat() is a unit q with Rq(q) = R')
            c.assume(T.eq(q[0] * q[0] + q[1] * q[1] + q[2] * q[2] + q[3] * q[3], 1), tag='A5')
            R = Rq_scalar_last(q[0], q[1], q[2], q[3], T.ONE)
            for i in range(3):
                for j in range(3):
                    c.assume(T.eq(R[i, j], self.mat[i, j]), tag='A5')
        return q


class _ScipyLinalgX:
    def __getattr__(self, name):
        import scipy.linalg as sl
        if name in ('inv', 'pinv', 'det', 'norm', 'solve'):
            return getattr(npx.linalg, name)
        real = getattr(sl, name)

        def guard(*a, **k):
            if npx._has_sym(list(a)):
                raise EngineError("scipy.linalg.%s is not modelled for symbolic input" % name)
            return real(*a, **k)
        return guard if callable(real) else real


scipy_linalgx = _ScipyLinalgX()


class _ScipyOptimizeX:
    def __getattr__(self, name):
        import scipy.optimize as so
        real = getattr(so, name)

        def guard(*a, **k):
            c = T.ctx()
            hook = getattr(c, 'optimizer_hook', None) if c is not None else None
            if hook is not None:
                return hook(name, real, a, k)
            if npx._has_sym(list(a)):
                raise EngineError("scipy.optimize.%s is not modelled for symbolic input" % name)
            return real(*a, **k)
        return guard if callable(real) else real


scipy_optimizex = _ScipyOptimizeX()


class _ScipyIntegrateX:
    def __getattr__(self, name):
        import scipy.integrate as si
        return getattr(si, name)


scipy_integratex = _ScipyIntegrateX()


class _ScipyX:
    linalg = scipy_linalgx
    optimize = scipy_optimizex
    integrate = scipy_integratex

    def __getattr__(self, name):
        import scipy
        return getattr(scipy, name)


scipyx = _ScipyX()


# ------------------------------------------------------------------------------------------------
# rtree: ghost set of inserted objects (A6)

class _Item:
    def __init__(self, obj, id_=None, bbox=None):
        self.object = obj
        self.id = id_
        self.bbox = bbox


class _Property:
    def __init__(self):
        self.dimension = 2


class _Index:
    def __init__(self, *a, properties=None, **k):
        self.items = []     # ghost: (id, coords, obj)
        self.properties = properties

    def insert(self, id_, coordinates, obj=None):
        self.items.append((id_, coordinates, obj))

    def count(self, bbox):
        return len(self.items)

    def nearest(self, coordinates, num_results=1, objects=False):
        c = T.ctx()
        hook = getattr(c, 'rtree_nearest_hook', None) if c is not None else None
        if hook is not None:
            return hook(self, coordinates, num_results, objects)
        raise EngineError("rtree nearest() without a contract hook")

    def intersection(self, coordinates, objects=False):
        raise EngineError("rtree intersection() is not modelled")


class _RtreeIndexX:
    Index = _Index
    Property = _Property
    Item = _Item


rtree_indexx = _RtreeIndexX()


class _SocketX:
    def __getattr__(self, name):
        import socket
        return getattr(socket, name)


socketx = _SocketX()


# ------------------------------------------------------------------------------------------------
class _PyplotX:
    """matplotlib.pyplot imported INSIDE a function body (SimulateControl's result plot): every call is recorded and
    does nothing (no window, no blocking show()); argument expressions are still evaluated by the executed source"""

    def __init__(self):
        self.calls = []

    def __getattr__(self, name):
        def sink(*a, **k):
            self.calls.append(name)
            return None
        sink.__name__ = name
        return sink


pyplotx = _PyplotX()


# ------------------------------------------------------------------------------------------------
class SymDoc(str):
    """the text of an XML document handed to ET.parse in place of a file name"""


class _SymStr(str):
    def split(self, *a):
        from .npx import SymTok
        return [SymTok(t) if t.startswith('@') else t for t in str.split(self, *a)]


class _El:
    """read-only view of a real xml.etree Element: attribute text holding '@tokens' keeps its tokens through split()"""

    def __init__(self, el):
        self._el = el

    @property
    def tag(self):
        return self._el.tag

    @property
    def text(self):
        return self._el.text

    @property
    def attrib(self):
        return self._el.attrib

    def get(self, name, default=None):
        from .npx import SymTok
        v = self._el.get(name, default)
        if isinstance(v, str) and '@' in v:
            toks = v.split()
            if len(toks) == 1:
                return SymTok(toks[0])
            return _SymStr(v)
        return v

    def __iter__(self):
        return iter([_El(c) for c in self._el])

    def __len__(self):
        return len(self._el)

    def find(self, path):
        r = self._el.find(path)
        return None if r is None else _El(r)

    def findall(self, path):
        return [_El(c) for c in self._el.findall(path)]


class _Tree:
    def __init__(self, root):
        self._root = root

    def getroot(self):
        return _El(self._root)


class _ETX:
    """xml.etree.ElementTree: the real parser; parse() also accepts the document text itself (SymDoc)"""

    def parse(self, source, *a, **k):
        import xml.etree.ElementTree as _ET
        if isinstance(source, SymDoc):
            return _Tree(_ET.fromstring(str(source)))
        return _Tree(_ET.parse(source, *a, **k).getroot())

    def fromstring(self, text, *a, **k):
        import xml.etree.ElementTree as _ET
        return _El(_ET.fromstring(text, *a, **k))

    def __getattr__(self, name):
        import xml.etree.ElementTree as _ET
        return getattr(_ET, name)


etx = _ETX()
