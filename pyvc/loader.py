"""Mechanical extraction (DESIGN §2.2): import /repo's modules through an in-memory AST transform.

The complete list of rewrites applied to a module of `basic_robotics`:
  T1  `@jit(...)`/`@njit(...)` decorators removed; `import numba`, `from numba import ...` removed
  T2  `import numpy as np` -> `np` bound to pyvc.npx.np_proxy (also `import numpy`)
  T3  `import math`, `import random`, `import scipy ...`, `from scipy.spatial.transform import Rotation`,
      `from rtree import index`, `import socket` -> pyvc.proxies objects
  T4  the builtin names float / print / isinstance / round / int are rebound per module to
      pyvc.builtinsx versions (identity on concrete values)
  T5  loops named by a contract are cut (pyvc.loops) -- only when a contract asks for it
  T6  the top-level package `basic_robotics/__init__.py` is replaced by an empty package body (its eager
      import of every sub-package - plotting, ROS, OPC-UA bridges - is not executed); sub-packages are
      imported on demand and their own __init__ files run unchanged.
Nothing else is touched.  Every function's AST hash (before the transform) is recorded.
"""
import ast
import sys
import os
import hashlib
import importlib.abc
import importlib.util
import types

PKG = 'basic_robotics'
REPO = [os.environ.get('PYVC_REPO', '/repo')]

FUNC_HASH = {}      # module name -> {qualname: sha1 of ast.dump}
REWRITES = {}       # module name -> list of text
LOOP_CUTS = {}      # module name -> {qualname: {ordinal: LoopSpec}}   (filled by contracts before import)
SOURCE_LINES = {}   # module name -> (path, source)

_JIT_NAMES = {'jit', 'njit', 'vectorize', 'guvectorize'}


def _is_jit_decorator(d):
    f = d.func if isinstance(d, ast.Call) else d
    if isinstance(f, ast.Name) and f.id in _JIT_NAMES:
        return True
    if isinstance(f, ast.Attribute) and f.attr in _JIT_NAMES and isinstance(f.value, ast.Name) \
            and f.value.id == 'numba':
        return True
    return False


_PROXY_IMPORTS = {
    'math': 'mathx',
    'random': 'randomx',
    'scipy': 'scipyx',
    'socket': 'socketx',
}


class _Transform(ast.NodeTransformer):
    def __init__(self, modname, log):
        self.modname = modname
        self.log = log
        self.stack = []

    # -- T1 / T5 ----------------------------------------------------------------------------------
    def _visit_func(self, node):
        self.stack.append(node.name)
        qual = '.'.join(self.stack)
        keep = []
        for d in node.decorator_list:
            if _is_jit_decorator(d):
                self.log.append('T1 %s: removed decorator @%s' % (qual, ast.unparse(d)[:60]))
            else:
                keep.append(d)
        node.decorator_list = keep
        self.generic_visit(node)
        cuts = LOOP_CUTS.get(self.modname, {}).get(qual)
        if cuts:
            from . import loops
            node = loops.cut_loops(node, cuts, qual, self.log)
        self.stack.pop()
        return node

    visit_FunctionDef = _visit_func
    visit_AsyncFunctionDef = _visit_func

    def visit_ClassDef(self, node):
        self.stack.append(node.name)
        self.generic_visit(node)
        self.stack.pop()
        return node

    # -- T1 / T2 / T3 ------------------------------------------------------------------------------
    def visit_Import(self, node):
        out = []
        for a in node.names:
            top = a.name.split('.')[0]
            bind = a.asname or top
            if top == 'numba':
                self.log.append('T1 removed `import %s`' % a.name)
                continue
            if top == 'numpy':
                self.log.append('T2 `import %s as %s` -> pyvc.npx' % (a.name, bind))
                out.append(ast.parse('from pyvc.npx import np_proxy as %s' % bind).body[0])
                continue
            if a.name in ('scipy.linalg',) :
                self.log.append('T3 `import %s as %s` -> pyvc.proxies' % (a.name, bind))
                out.append(ast.parse('from pyvc.proxies import scipy_linalgx as %s' % bind).body[0])
                continue
            if a.name in ('scipy.integrate', 'scipy.optimize'):
                sub = a.name.split('.')[1]
                if a.asname:
                    out.append(ast.parse('from pyvc.proxies import scipy_%sx as %s' % (sub, bind)).body[0])
                else:
                    out.append(ast.parse('from pyvc.proxies import scipyx as scipy').body[0])
                self.log.append('T3 `import %s` -> pyvc.proxies' % a.name)
                continue
            if a.name == 'xml.etree.ElementTree':
                self.log.append('T3 `import %s as %s` -> pyvc.proxies.etx (real parser behind a read-only element view)' % (a.name, bind))
                out.append(ast.parse('from pyvc.proxies import etx as %s' % bind).body[0])
                continue
            if a.name == 'matplotlib.pyplot' and self.stack:
                self.log.append('T3 function-local `import matplotlib.pyplot as %s` -> pyvc.proxies.pyplotx (recording no-op)' % bind)
                out.append(ast.parse('from pyvc.proxies import pyplotx as %s' % bind).body[0])
                continue
            if top in _PROXY_IMPORTS and a.name == top:
                self.log.append('T3 `import %s as %s` -> pyvc.proxies.%s' % (a.name, bind, _PROXY_IMPORTS[top]))
                out.append(ast.parse('from pyvc.proxies import %s as %s' % (_PROXY_IMPORTS[top], bind)).body[0])
                continue
            out.append(ast.Import(names=[a]))
        return [ast.copy_location(o, node) for o in out] or None

    def visit_ImportFrom(self, node):
        mod = node.module or ''
        if node.level == 0 and mod.split('.')[0] == 'numba':
            self.log.append('T1 removed `from %s import ...`' % mod)
            return None
        if node.level == 0 and mod == 'scipy.spatial.transform':
            self.log.append('T3 scipy Rotation -> pyvc.proxies.RotationX')
            out = []
            for a in node.names:
                if a.name == 'Rotation':
                    out.append(ast.parse('from pyvc.proxies import RotationX as %s' % (a.asname or a.name)).body[0])
                else:
                    out.append(ast.ImportFrom(module=mod, names=[a], level=0))
            return [ast.copy_location(o, node) for o in out]
        if node.level == 0 and mod == 'rtree':
            self.log.append('T3 rtree.index -> pyvc.proxies.rtree_indexx')
            return ast.copy_location(ast.parse('from pyvc.proxies import rtree_indexx as index').body[0], node)
        if node.level == 0 and mod == '__future__':
            return node
        return node


_BUILTIN_PRELUDE = "from pyvc.builtinsx import float, print, isinstance, round, int\n"


def transform_source(source, modname, path):
    tree = ast.parse(source, filename=path)
    hashes = {}

    class H(ast.NodeVisitor):
        def __init__(self):
            self.stack = []

        def visit_FunctionDef(self, node):
            self.stack.append(node.name)
            hashes['.'.join(self.stack)] = hashlib.sha1(ast.dump(node).encode()).hexdigest()[:16]
            self.generic_visit(node)
            self.stack.pop()

        visit_AsyncFunctionDef = visit_FunctionDef

        def visit_ClassDef(self, node):
            self.stack.append(node.name)
            self.generic_visit(node)
            self.stack.pop()
    H().visit(tree)
    FUNC_HASH[modname] = hashes
    log = []
    tree = _Transform(modname, log).visit(tree)
    # T4 prelude goes after any `from __future__` imports and the module docstring
    pre = ast.parse(_BUILTIN_PRELUDE).body
    pos = 0
    body = tree.body
    while pos < len(body) and (
            (isinstance(body[pos], ast.ImportFrom) and body[pos].module == '__future__') or
            (pos == 0 and isinstance(body[pos], ast.Expr) and isinstance(body[pos].value, ast.Constant))):
        pos += 1
    tree.body = body[:pos] + pre + body[pos:]
    log.append('T4 builtins float/print/isinstance/round/int rebound to pyvc.builtinsx')
    ast.fix_missing_locations(tree)
    REWRITES[modname] = log
    return tree


class _Loader(importlib.abc.Loader):
    def __init__(self, fullname, path, is_pkg):
        self.fullname = fullname
        self.path = path
        self.is_pkg = is_pkg

    def create_module(self, spec):
        return None

    def exec_module(self, module):
        if self.fullname == PKG:
            REWRITES[PKG] = ['T6 top-level __init__ body not executed (sub-packages imported on demand)']
            module.__dict__['__version__'] = 'pyvc-shadow'
            return
        with open(self.path, 'r') as f:
            source = f.read()
        SOURCE_LINES[self.fullname] = (self.path, source)
        tree = transform_source(source, self.fullname, self.path)
        code = compile(tree, self.path, 'exec')
        module.__dict__['__file__'] = self.path
        exec(code, module.__dict__)


class Finder(importlib.abc.MetaPathFinder):
    def find_spec(self, fullname, path, target=None):
        if fullname != PKG and not fullname.startswith(PKG + '.'):
            return None
        rel = fullname.split('.')
        base = os.path.join(REPO[0], *rel)
        if os.path.isdir(base) and os.path.exists(os.path.join(base, '__init__.py')):
            p = os.path.join(base, '__init__.py')
            spec = importlib.util.spec_from_loader(fullname, _Loader(fullname, p, True), origin=p, is_package=True)
            spec.submodule_search_locations = [base]
            return spec
        p = base + '.py'
        if os.path.exists(p):
            return importlib.util.spec_from_loader(fullname, _Loader(fullname, p, False), origin=p)
        return None


_INSTALLED = [False]


def install(repo=None):
    if repo:
        REPO[0] = repo
    if _INSTALLED[0]:
        return
    for k in list(sys.modules):
        if k == PKG or k.startswith(PKG + '.'):
            raise RuntimeError("basic_robotics was already imported natively in this process")
    sys.meta_path.insert(0, Finder())
    _INSTALLED[0] = True


def load(modname):
    install()
    return importlib.import_module(modname)


def load_file(modname, path):
    """load an arbitrary source file (the vendored reference library) through the same transform"""
    if modname in sys.modules:
        return sys.modules[modname]
    with open(path, 'r') as f:
        source = f.read()
    SOURCE_LINES[modname] = (path, source)
    tree = transform_source(source, modname, path)
    mod = types.ModuleType(modname)
    mod.__file__ = path
    sys.modules[modname] = mod
    exec(compile(tree, path, 'exec'), mod.__dict__)
    return mod


def resolve(target):
    """'pkg.mod:Qual.name' -> (module, owner, attr name, object)"""
    modname, qual = target.split(':')
    mod = load(modname)
    owner = mod
    parts = qual.split('.')
    for p in parts[:-1]:
        owner = getattr(owner, p)
    return mod, owner, parts[-1], getattr(owner, parts[-1])


def func_hash(target):
    modname, qual = target.split(':')
    load(modname)
    return FUNC_HASH.get(modname, {}).get(qual)
