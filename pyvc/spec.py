"""Spec library (DESIGN §3): mathematical definitions the contracts are written against.

Independent of the code under verification.  Every function works both on symbolic cells (SR inside
object arrays) and on plain floats, so the same contract text is evaluated symbolically by the
verifier and numerically by the replay of a counterexample on the native code.
"""
import math
import numpy as _np
from . import terms as T
from .terms import SR, Dual
from . import npx

CUTOFF = 1e-6   # the library's documented NearZero cut-off


def is_sym(x):
    return npx._has_sym(x)


def arr(x):
    """array of floats or of SR, depending on content"""
    if is_sym(x):
        return npx.array(x, dtype=float)
    return _np.array(x, dtype=float)


def zeros(shape, like):
    return npx.zeros(shape) if is_sym(like) else _np.zeros(shape)


def eye(n, like):
    return npx.eye(n) if is_sym(like) else _np.eye(n)


def sqrt(x):
    return x.sqrt() if isinstance(x, (SR, Dual)) else math.sqrt(x)


def sin(x):
    return x.sin() if isinstance(x, (SR, Dual)) else math.sin(x)


def cos(x):
    return x.cos() if isinstance(x, (SR, Dual)) else math.cos(x)


def arccos(x):
    return x.arccos() if isinstance(x, (SR, Dual)) else math.acos(max(-1.0, min(1.0, x)))


def pi_of(like):
    return T.PI if is_sym(like) else math.pi


def dotv(a, b):
    s = a[0] * b[0]
    for i in range(1, len(a)):
        s = s + a[i] * b[i]
    return s


def norm(v):
    v = list(_np.asarray(v, dtype=object).reshape(-1)) if isinstance(v, _np.ndarray) else list(v)
    return sqrt(dotv(v, v))


def cross3(a, b):
    return arr([a[1] * b[2] - a[2] * b[1], a[2] * b[0] - a[0] * b[2], a[0] * b[1] - a[1] * b[0]])


def mm(*ms):
    r = ms[0]
    for m in ms[1:]:
        r = npx.dot(r, m) if is_sym([r, m]) else _np.dot(r, m)
    return r


# -- hat / vee -------------------------------------------------------------------------------------

def hat3(w):
    z = 0 * w[0]
    return arr([[z, -w[2], w[1]], [w[2], z, -w[0]], [-w[1], w[0], z]])


def vee3(m):
    return arr([m[2][1], m[0][2], m[1][0]])


def hat6(V):
    """se(3) matrix of a twist V = (w, v)"""
    z = 0 * V[0]
    return arr([[z, -V[2], V[1], V[3]], [V[2], z, -V[0], V[4]], [-V[1], V[0], z, V[5]], [z, z, z, z]])


def vee6(m):
    return arr([m[2][1], m[0][2], m[1][0], m[0][3], m[1][3], m[2][3]])


# -- rotations -------------------------------------------------------------------------------------

def Rq(q):
    """rotation matrix of a unit quaternion q = (q0; q1, q2, q3), scalar first"""
    a, b, c, d = q[0], q[1], q[2], q[3]
    return arr([[a * a + b * b - c * c - d * d, 2 * (b * c - a * d), 2 * (b * d + a * c)],
                [2 * (b * c + a * d), a * a - b * b + c * c - d * d, 2 * (c * d - a * b)],
                [2 * (b * d - a * c), 2 * (c * d + a * b), a * a - b * b - c * c + d * d]])


def Rq_scalar_last(x, y, z, w, n2):
    """rotation of the (not necessarily unit) quaternion (x, y, z, w), n2 = its squared norm"""
    R = Rq([w, x, y, z])
    return R / n2


def Rod(w):
    """Rodrigues' formula: the matrix exponential of hat3(w) (MR Prop. 3.11); requires |w| != 0"""
    th = norm(w)
    K = hat3(w)
    K2 = mm(K, K)
    return eye(3, w) + (sin(th) / th) * K + ((1 - cos(th)) / (th * th)) * K2


def ExpLib3(w):
    """the library's documented exponential: identity inside the 1e-6 cut-off, Rodrigues outside"""
    th = norm(w)
    if th < CUTOFF:
        return eye(3, w)
    return Rod(w)


def Gmat(w):
    """G(theta)/theta in terms of the unnormalised rotation vector: translation part of exp"""
    th = norm(w)
    K = hat3(w)
    K2 = mm(K, K)
    return eye(3, w) + ((1 - cos(th)) / (th * th)) * K + ((th - sin(th)) / (th * th * th)) * K2


def RpT(R, p):
    z = 0 * p[0]
    o = z + 1
    return arr([[R[0][0], R[0][1], R[0][2], p[0]], [R[1][0], R[1][1], R[1][2], p[1]],
                [R[2][0], R[2][1], R[2][2], p[2]], [z, z, z, o]])


def Exp6(V):
    """exponential of the twist V = (w, v) as the library documents it (cut-off on |w|)"""
    w, v = V[0:3], V[3:6]
    th = norm(w)
    if th < CUTOFF:
        return RpT(eye(3, V), v)
    return RpT(Rod(w), mm(Gmat(w), arr(v)))


def Exp6_exact(V):
    """exponential without cut-off (requires |w| != 0)"""
    w, v = V[0:3], V[3:6]
    return RpT(Rod(w), mm(Gmat(w), arr(v)))


def inv_SE3(Tm):
    R = Tm[0:3, 0:3]
    p = Tm[0:3, 3]
    Rt = R.T
    return RpT(Rt, -mm(Rt, p))


def Ad(Tm):
    R = Tm[0:3, 0:3]
    p = Tm[0:3, 3]
    pR = mm(hat3(p), R)
    out = zeros((6, 6), Tm)
    out[0:3, 0:3] = R
    out[3:6, 3:6] = R
    out[3:6, 0:3] = pR
    return out


def ad(V):
    out = zeros((6, 6), V)
    out[0:3, 0:3] = hat3(V[0:3])
    out[3:6, 3:6] = hat3(V[0:3])
    out[3:6, 0:3] = hat3(V[3:6])
    return out


def det3(R):
    return (R[0][0] * (R[1][1] * R[2][2] - R[1][2] * R[2][1])
            - R[0][1] * (R[1][0] * R[2][2] - R[1][2] * R[2][0])
            + R[0][2] * (R[1][0] * R[2][1] - R[1][1] * R[2][0]))


def PoE(M, S, theta, exact=False):
    """prod_i Exp6(S_i theta_i) . M   (S: 6 x n, columns are (w, v))"""
    n = len(theta)
    Tm = M
    for i in range(n - 1, -1, -1):
        col = arr([S[k][i] * theta[i] for k in range(6)])
        E = Exp6_exact(col) if exact else Exp6(col)
        Tm = mm(E, Tm)
    return Tm


def Rx(a):
    z = 0 * a
    return arr([[z + 1, z, z], [z, cos(a), -sin(a)], [z, sin(a), cos(a)]])


def Ry(a):
    z = 0 * a
    return arr([[cos(a), z, sin(a)], [z, z + 1, z], [-sin(a), z, cos(a)]])


def Rz(a):
    z = 0 * a
    return arr([[cos(a), -sin(a), z], [sin(a), cos(a), z], [z, z, z + 1]])


def seg_box_witness(p1, p2, lo, hi, t):
    """conjunction: t in [0,1] and lo <= p1 + t (p2 - p1) <= hi"""
    cs = [0 <= t, t <= 1]
    for k in range(3):
        x = p1[k] + t * (p2[k] - p1[k])
        cs.append(lo[k] <= x)
        cs.append(x <= hi[k])
    return cs
