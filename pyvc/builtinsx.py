"""Rebound builtins for transformed modules (rewrite T4).  Identity on concrete values.

`float` and `int` stay usable both as converters and as the second argument of isinstance: they are
classes whose metaclass answers isinstance like the real type (and counts a symbolic real as a float).
"""
import builtins as _bi
import numbers
import numpy as _np
from .terms import SR, SB, Dual, EngineError

_FLOATLIKE = (_bi.float, _np.floating, _np.float64, numbers.Real, numbers.Number)


class _FloatMeta(type):
    def __instancecheck__(cls, x):
        return _bi.isinstance(x, (_bi.float, SR, Dual))

    def __subclasscheck__(cls, c):
        return _bi.issubclass(c, _bi.float)

    def __call__(cls, x=0.0):
        if _bi.isinstance(x, (SR, Dual)):
            return x
        if _bi.isinstance(x, _np.ndarray) and x.dtype == object and x.size == 1:
            c = x.reshape(-1)[0]
            if _bi.isinstance(c, (SR, Dual)):
                return c
        if _bi.isinstance(x, _bi.str) and x.strip().startswith('@'):
            from .npx import parse_number_text
            return parse_number_text(x)
        return _bi.float(x)


class float(metaclass=_FloatMeta):  # noqa: A001
    pass


class _IntMeta(type):
    def __instancecheck__(cls, x):
        return _bi.isinstance(x, _bi.int)

    def __subclasscheck__(cls, c):
        return _bi.issubclass(c, _bi.int)

    def __call__(cls, x=0, *a):
        if _bi.isinstance(x, SR):
            if x.is_const():
                return _bi.int(x.value)
            raise EngineError("int() of a symbolic value")
        return _bi.int(x, *a)


class int(metaclass=_IntMeta):  # noqa: A001
    pass


PRINTED = []


def print(*a, **k):  # noqa: A001
    """output is captured (not shown): contracts about what is printed read PRINTED"""
    sep = k.get('sep', ' ')
    end = k.get('end', '\n')
    try:
        PRINTED.append(sep.join(_bi.str(x) for x in a) + end)
    except Exception:
        PRINTED.append('<unprintable>')
    if _bi.len(PRINTED) > 20000:
        del PRINTED[:10000]
    return None


def _real_type(c):
    if c is float:
        return _bi.float
    if c is int:
        return _bi.int
    return c


def isinstance(x, cls):  # noqa: A001
    cs = tuple(_real_type(c) for c in cls) if _bi.isinstance(cls, tuple) else (_real_type(cls),)
    if _bi.isinstance(x, (SR, Dual)):
        for c in cs:
            if c in _FLOATLIKE:
                return True
            if c is SR or c is Dual:
                return _bi.isinstance(x, c)
        return False
    return _bi.isinstance(x, cs)


def round(x, n=None):  # noqa: A001
    if _bi.isinstance(x, SR):
        if x.is_const():
            return _bi.round(_bi.float(x.value), n) if n is not None else _bi.round(_bi.float(x.value))
        raise EngineError("round() of a symbolic value")
    return _bi.round(x, n) if n is not None else _bi.round(x)
