"""Rebound builtins for transformed modules (rewrite T4).  Identity on concrete values."""
import builtins as _bi
import numbers
import numpy as _np
from .terms import SR, SB, Dual, EngineError

_FLOATLIKE = (float, _np.floating, _np.float64, numbers.Real, numbers.Number)


def float(x=0.0):  # noqa: A001
    if _bi.isinstance(x, (SR, Dual)):
        return x
    if _bi.isinstance(x, _np.ndarray) and x.dtype == object and x.size == 1:
        c = x.reshape(-1)[0]
        if _bi.isinstance(c, (SR, Dual)):
            return c
    return _bi.float(x)


def int(x=0, *a):  # noqa: A001
    if _bi.isinstance(x, SR):
        if x.is_const():
            return _bi.int(x.value)
        raise EngineError("int() of a symbolic value")
    return _bi.int(x, *a)


def print(*a, **k):  # noqa: A001
    return None


def isinstance(x, cls):  # noqa: A001
    if _bi.isinstance(x, (SR, Dual)):
        cs = cls if _bi.isinstance(cls, tuple) else (cls,)
        for c in cs:
            if c in _FLOATLIKE:
                return True
            if c is SR or c is Dual:
                return _bi.isinstance(x, c)
        return False
    return _bi.isinstance(x, cls)


def round(x, n=None):  # noqa: A001
    if _bi.isinstance(x, SR):
        if x.is_const():
            return _bi.round(_bi.float(x.value), n) if n is not None else _bi.round(_bi.float(x.value))
        raise EngineError("round() of a symbolic value")
    return _bi.round(x, n) if n is not None else _bi.round(x)
