"""Contracts: sidecar specifications of real functions, evaluated in three modes by one text.

  symbolic : inputs are SR symbols, the shadow (transformed) function object runs under the path
             explorer, `eq/holds` emit proof obligations
  sample   : inputs are random floats satisfying `requires` (sample pool for feasibility and witnesses)
  concrete : inputs come from a witness; the NATIVE function (Numba and all) runs; `eq/holds` compare
             numerically -- this is the replay of a counterexample against the real code
"""
import math
import random
import importlib
import numpy as _np
from . import terms as T
from .terms import SR, SB, EngineError
from . import npx

REGISTRY = {}     # name -> contract class


def register(cls):
    REGISTRY[cls.__name__] = cls
    return cls


class Reject(Exception):
    """sample rejected (requires false)"""


class Contract:
    prop = None            # property id(s): 'C01' or ('C01', 'C04')
    target = None          # 'module:qualname' of the function under contract (may be None for lemmas)
    under_contract = ()    # further functions whose bodies are executed/verified by this contract
    expect_raises = ()     # exception types listed in the contract
    shape_bound = None     # text describing the shape bound, if any
    max_paths = 400
    n_samples = 24
    timeout = 60.0         # per-obligation solver budget (quick tier)
    tol = 1e-9             # default numeric tolerance in concrete mode
    description = ''

    def setup(self, g):
        """declare inputs; return (args, kwargs) for the target"""
        raise NotImplementedError

    def run(self, g, fn, args, kwargs):
        return fn(*args, **kwargs)

    def post(self, g, result, args, kwargs):
        raise NotImplementedError

    def props(self):
        return (self.prop,) if isinstance(self.prop, str) else tuple(self.prop)


class G:
    """gateway between a contract and the mode it is evaluated in"""

    def __init__(self, mode, ctx=None, env=None, rng=None, tol=1e-9, alg=None):
        self.mode = mode              # 'symbolic' | 'sample' | 'concrete'
        self.ctx = ctx
        self.env = {} if env is None else env
        self.rng = rng
        self.tol = tol
        self.alg = alg
        self.failures = []            # concrete mode: list of (name, detail)
        self.checked = 0
        self.rules = []               # symbolic: algebra rules to install (callables)
        self.declared = []
        self.ghost = {}

    @property
    def symbolic(self):
        return self.mode == 'symbolic'

    # -- inputs -----------------------------------------------------------------------------------
    def real(self, name, lo=None, hi=None, scale=1.0, nonzero=False):
        self.declared.append(name)
        if self.mode == 'symbolic':
            x = SR.var(name)
            if lo is not None:
                self.ctx.assume(T.le(lo, x), tag='requires')
            if hi is not None:
                self.ctx.assume(T.le(x, hi), tag='requires')
            return x
        if self.mode == 'sample':
            if name in self.env:
                return self.env[name]
            if lo is not None and hi is not None:
                v = self.rng.uniform(lo, hi)
            elif lo is not None:
                v = lo + abs(self.rng.gauss(0, scale))
            elif hi is not None:
                v = hi - abs(self.rng.gauss(0, scale))
            else:
                v = self.rng.gauss(0, scale)
            self.env[name] = v
            return v
        if name not in self.env:
            # an input the counter-model does not constrain: any admissible value will do
            if lo is not None and hi is not None:
                self.env[name] = (lo + hi) / 2.0
            elif lo is not None:
                self.env[name] = lo + 0.5
            elif hi is not None:
                self.env[name] = hi - 0.5
            else:
                self.env[name] = 0.5
        v = float(self.env[name])
        if (lo is not None and v < lo) or (hi is not None and v > hi):
            raise Reject(name)
        return v

    def reals(self, name, n, **kw):
        return [self.real('%s%d' % (name, i), **kw) for i in range(n)]

    def unit(self, name, n):
        """n reals constrained to unit Euclidean norm; in the algebra: x0^2 -> 1 - sum others"""
        names = ['%s%d' % (name, i) for i in range(n)]
        self.declared.extend(names)
        if self.mode == 'symbolic':
            xs = [SR.var(nm) for nm in names]
            tot = T.ZERO
            for x in xs:
                tot = tot + x * x
            self.ctx.assume(T.eq(tot, 1), tag='requires')
            rest = T.ONE
            for x in xs[1:]:
                rest = rest - x * x
            self.rule_sq(xs[0], rest, '%s unit: %s^2 = 1 - rest' % (name, names[0]))
            return xs
        if self.mode == 'sample':
            if all(nm in self.env for nm in names):
                return [self.env[nm] for nm in names]
            v = [self.rng.gauss(0, 1) for _ in range(n)]
            nn = math.sqrt(sum(x * x for x in v))
            v = [x / nn for x in v]
            for nm, x in zip(names, v):
                self.env[nm] = x
            return v
        if any(nm not in self.env for nm in names):
            raise Reject('witness lacks input %s' % name)
        v = [float(self.env[nm]) for nm in names]
        nn = math.sqrt(sum(x * x for x in v))
        if abs(nn - 1) > 1e-6:
            raise Reject(name)
        return [x / nn for x in v]

    def choice(self, name, options):
        """finite enumeration handled by the contract's variants; here only for sampling"""
        raise NotImplementedError

    def require(self, cond, tag='requires'):
        if self.mode == 'symbolic':
            self.ctx.assume(cond, tag=tag)
        else:
            if not bool(cond):
                raise Reject(tag)

    def assume_fact(self, cond, note):
        """an assumption that is NOT a precondition (recorded in the evidence)"""
        if self.mode == 'symbolic':
            self.ctx.note_assumption(note)
            self.ctx.assume(cond, tag=note)

    def rule_sq(self, var, rhs, name):
        """oriented equational hypothesis var^2 = rhs (must also be assumed as a requires by the caller)"""
        if self.mode == 'symbolic':
            self.rules.append(('sq', var, rhs, name))
            if self.alg is not None:
                self.alg.add_var_square_rule(var, SR.lift(rhs), name)

    def use_eq(self, var, rhs, name):
        """derive `var == rhs` on the current path (an obligation, discharged from the path condition) and
        use it as a substitution in the ring normaliser for the rest of this path"""
        if self.mode == 'symbolic':
            self.ctx.oblige('derived: ' + name, T.eq(var, rhs), kind='lemma')
            self.ctx.assume(T.eq(var, rhs), tag='derived')
            self.alg.add_var_linear_rule(var, SR.lift(rhs), name)

    def lemma(self, name, cond):
        """prove `cond` on the current path (an obligation) and keep it as a hypothesis for what follows"""
        if self.mode == 'symbolic':
            self.ctx.oblige('lemma: ' + name, cond, kind='lemma',
                            pair=(cond.args[0], cond.args[1]) if getattr(cond, 'op', None) == '==' else None)
            self.ctx.assume(cond, tag='lemma')

    def instance(self, name, builder, *terms):
        """use an instance of a universally valid real-arithmetic fact: `builder(x1..xn)` is proved for fresh
        variables (an obligation) and then assumed for the given terms"""
        if self.mode == 'symbolic':
            fresh = [SR.var('gen_%s_%d' % (name.split(':')[0].replace(' ', '_'), i)) for i in range(len(terms))]
            self.ctx.oblige('generic lemma: ' + name, builder(*fresh), kind='lemma')
            self.ctx.assume(builder(*[SR.lift(t) for t in terms]), tag='instance of ' + name)

    def use_sq(self, var, rhs, name):
        """derive `var^2 == rhs` on the current path (obligation) and use it as a rewrite rule"""
        if self.mode == 'symbolic':
            self.ctx.oblige('derived: ' + name, T.eq(var * var, rhs), kind='lemma')
            self.ctx.assume(T.eq(var * var, rhs), tag='derived')
            self.alg.add_var_square_rule(var, SR.lift(rhs), name)
            self.alg.rf_cache = {k: v for k, v in self.alg.rf_cache.items() if not (isinstance(k, tuple) and k and k[0] == 'cmp')}

    def rule_prod(self, v1, v2, rhs, name):
        if self.mode == 'symbolic':
            self.rules.append(('pr', v1, v2, rhs, name))
            if self.alg is not None:
                self.alg.add_var_prod_rule(v1, v2, SR.lift(rhs), name)

    # -- obligations ------------------------------------------------------------------------------
    def eq(self, name, a, b, tol=None, scale=None):
        """a == b entry-wise.  symbolic: exact equality obligations unless `tol` is given, then
        |a - b| <= tol.  concrete: |a - b| <= max(tol, self.tol) * max(1, |b|)."""
        if self.mode == 'sample':
            return
        A = _np.asarray(a, dtype=object) if not isinstance(a, _np.ndarray) else a
        B = _np.asarray(b, dtype=object) if not isinstance(b, _np.ndarray) else b
        if A.shape != B.shape:
            if A.size == B.size and (A.ndim <= 2 and B.ndim <= 2) and False:
                pass
            self._fail_or_oblige(name + ' [shape %s vs %s]' % (A.shape, B.shape), T.FALSE, None)
            return
        if self.mode == 'symbolic':
            it = _np.ndindex(*A.shape) if A.shape else [()]
            for idx in it:
                x, y = SR.lift(A[idx]), SR.lift(B[idx])
                nm = name + (str(list(idx)) if idx != () else '')
                if tol is None:
                    self.ctx.oblige(nm, T.eq(x, y), pair=(x, y))
                else:
                    self.ctx.oblige(nm, T.le(abs(x - y), tol), tol=tol, pair=(x, y))
            return
        A = A.astype(float)
        B = B.astype(float)
        t = max(tol or 0.0, self.tol)
        err = _np.abs(A - B)
        lim = t * _np.maximum(1.0, _np.abs(B)) if scale is None else t * scale
        self.checked += int(A.size)
        bad = ~(err <= lim)
        if _np.any(bad):
            idx = tuple(int(i) for i in _np.argwhere(bad)[0])
            self.failures.append((name + str(list(idx)), 'got %r expected %r (|diff| %.3g > %.3g)' %
                                  (float(A[idx]), float(B[idx]), float(err[idx]), float(_np.broadcast_to(lim, err.shape)[idx]))))

    def holds(self, name, cond, kind='ensures'):
        if self.mode == 'sample':
            return
        if self.mode == 'symbolic':
            self.ctx.oblige(name, cond, kind=kind)
            return
        self.checked += 1
        if not bool(cond):
            self.failures.append((name, 'condition is false'))

    def le(self, name, a, b, slack=0.0):
        """a <= b ; in concrete mode with slack relative tolerance"""
        if self.mode == 'symbolic':
            self.ctx.oblige(name, T.le(a, b))
        elif self.mode == 'concrete':
            self.checked += 1
            if not (float(a) <= float(b) + slack + self.tol * max(1.0, abs(float(b)))):
                self.failures.append((name, '%r <= %r is false' % (float(a), float(b))))

    def _fail_or_oblige(self, name, cond, detail):
        if self.mode == 'symbolic':
            self.ctx.oblige(name, cond)
        elif self.mode == 'concrete':
            self.failures.append((name, detail or 'failed'))

    def fail(self, name, detail=''):
        self._fail_or_oblige(name, T.FALSE, detail)

    # -- helpers ------------------------------------------------------------------------------------
    def arr(self, x):
        if self.mode == 'symbolic':
            return npx.array(x, dtype=float)
        return _np.array(x, dtype=float)

    def module(self, name):
        return importlib.import_module(name)

    def fresh(self, prefix):
        if self.mode == 'symbolic':
            return self.ctx.fresh_real(prefix)
        raise EngineError("fresh symbol outside symbolic mode")
