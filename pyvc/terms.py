"""Symbolic real scalars (SR) and boolean formulas (SB) for pyvc.

SR values are hash-consed term DAG nodes over input symbols, exact rational constants and opaque
atoms (sqrt, sin, cos, arccos, abs, floor, ...).  They live inside ordinary numpy object arrays,
so NumPy/CPython execute shape, view, copy and control-flow semantics of the real code; only leaf
arithmetic is symbolic.  SB.__bool__ is the fork point of the path explorer (pyvc.explore).
"""
from fractions import Fraction
import math
import numbers
import numpy as np

# ------------------------------------------------------------------------------------------------
# hash consing

_TABLE = {}
_NEXT_ID = [0]


class EngineError(Exception):
    """Raised when the engine itself cannot continue soundly (mapped to exit code 3)."""


def reset_terms():
    _TABLE.clear()
    _NEXT_ID[0] = 0
    _init_constants()


def _mk(cls, op, args, extra=None):
    key = (cls.__name__, op, tuple(a.id if isinstance(a, (SR, SB)) else a for a in args), extra)
    node = _TABLE.get(key)
    if node is None:
        node = object.__new__(cls)
        node.op = op
        node.args = tuple(args)
        node.extra = extra
        node.id = _NEXT_ID[0]
        _NEXT_ID[0] += 1
        _TABLE[key] = node
    return node


def to_fraction(x):
    if isinstance(x, Fraction):
        return x
    if isinstance(x, bool) or isinstance(x, np.bool_):
        return Fraction(int(x))
    if isinstance(x, (int, np.integer)):
        return Fraction(int(x))
    if isinstance(x, (float, np.floating)):
        f = float(x)
        if math.isnan(f) or math.isinf(f):
            raise EngineError("non-finite float constant %r entered a symbolic term" % (x,))
        return Fraction(f)
    raise TypeError("cannot convert %r to a rational constant" % (type(x),))


def is_number(x):
    return isinstance(x, (int, float, Fraction, np.integer, np.floating, bool, np.bool_))


# the currently active exploration context (set by pyvc.explore); None => no forking allowed
CTX = [None]


def ctx():
    return CTX[0]


# ------------------------------------------------------------------------------------------------

class SR:
    """symbolic real"""
    __slots__ = ('op', 'args', 'extra', 'id', '__weakref__')

    # -- construction ---------------------------------------------------------------------------
    @staticmethod
    def const(x):
        return _mk(SR, 'c', (), to_fraction(x))

    @staticmethod
    def var(name):
        return _mk(SR, 'v', (), name)

    @staticmethod
    def lift(x):
        if isinstance(x, SR):
            return x
        if isinstance(x, np.ndarray):
            if x.ndim == 0 or x.size == 1:
                return SR.lift(x.reshape(-1)[0])
            raise TypeError("array where a scalar was expected")
        if isinstance(x, (float, np.floating)) and math.isinf(float(x)):
            # +-inf (velocity/effort limits): an opaque symbol, never compared in the verified paths
            return INF if x > 0 else neg(INF)
        if is_number(x):
            return SR.const(x)
        if isinstance(x, Dual):
            raise TypeError("Dual mixed into SR")
        raise TypeError("cannot lift %r into SR" % (type(x),))

    def is_const(self):
        return self.op == 'c'

    @property
    def value(self):
        return self.extra

    # -- arithmetic -------------------------------------------------------------------------------
    def __add__(self, o):
        if isinstance(o, np.ndarray):
            return NotImplemented
        try:
            o = SR.lift(o)
        except TypeError:
            return NotImplemented
        return add(self, o)

    def __radd__(self, o):
        if isinstance(o, np.ndarray):
            return NotImplemented
        try:
            o = SR.lift(o)
        except TypeError:
            return NotImplemented
        return add(o, self)

    def __sub__(self, o):
        if isinstance(o, np.ndarray):
            return NotImplemented
        try:
            o = SR.lift(o)
        except TypeError:
            return NotImplemented
        return add(self, neg(o))

    def __rsub__(self, o):
        if isinstance(o, np.ndarray):
            return NotImplemented
        try:
            o = SR.lift(o)
        except TypeError:
            return NotImplemented
        return add(o, neg(self))

    def __mul__(self, o):
        if isinstance(o, np.ndarray):
            return NotImplemented
        try:
            o = SR.lift(o)
        except TypeError:
            return NotImplemented
        return mul(self, o)

    def __rmul__(self, o):
        if isinstance(o, np.ndarray):
            return NotImplemented
        try:
            o = SR.lift(o)
        except TypeError:
            return NotImplemented
        return mul(o, self)

    def __truediv__(self, o):
        if isinstance(o, np.ndarray):
            return NotImplemented
        try:
            o = SR.lift(o)
        except TypeError:
            return NotImplemented
        return div(self, o)

    def __rtruediv__(self, o):
        if isinstance(o, np.ndarray):
            return NotImplemented
        try:
            o = SR.lift(o)
        except TypeError:
            return NotImplemented
        return div(o, self)

    def __neg__(self):
        return neg(self)

    def __pos__(self):
        return self

    def __abs__(self):
        return fn('abs', self)

    def __pow__(self, e):
        if isinstance(e, SR) and e.is_const():
            e = e.value
        if isinstance(e, (float, np.floating)) and float(e) == int(e):
            e = int(e)
        if isinstance(e, Fraction) and e.denominator == 1:
            e = int(e)
        if isinstance(e, (int, np.integer)):
            e = int(e)
            if e == 0:
                return ONE
            if e < 0:
                return div(ONE, self ** (-e))
            r = self
            for _ in range(e - 1):
                r = mul(r, self)
            return r
        if isinstance(e, (float, Fraction)) and Fraction(e) == Fraction(1, 2):
            return fn('sqrt', self)
        raise EngineError("unsupported exponent %r" % (e,))

    def __rpow__(self, b):
        raise EngineError("symbolic exponent is not supported")

    def __mod__(self, m):
        m = SR.lift(m)
        # python/numpy semantics for reals: x - m*floor(x/m)
        return add(self, neg(mul(m, fn('floor', div(self, m)))))

    def __rmod__(self, x):
        return SR.lift(x).__mod__(self)

    def __floordiv__(self, m):
        return fn('floor', div(self, SR.lift(m)))

    # -- numpy ufunc-by-method protocol for object arrays -------------------------------------------
    def sqrt(self):
        return fn('sqrt', self)

    def sin(self):
        return fn('sin', self)

    def cos(self):
        return fn('cos', self)

    def tan(self):
        return fn('tan', self)

    def arccos(self):
        return fn('arccos', self)

    def arcsin(self):
        return fn('arcsin', self)

    def arctan2(self, other):
        return fn2('arctan2', self, SR.lift(other))

    def floor(self):
        return fn('floor', self)

    def conjugate(self):
        return self

    def conj(self):
        return self

    def square(self):
        return mul(self, self)

    def copy(self):
        return self

    def __copy__(self):
        return self

    def __deepcopy__(self, memo):
        return self

    @property
    def real(self):
        return self

    @property
    def imag(self):
        return ZERO

    def item(self):
        return self

    # -- comparisons ------------------------------------------------------------------------------
    def __lt__(self, o):
        if isinstance(o, np.ndarray):
            return NotImplemented
        return cmp('<', self, SR.lift(o))

    def __le__(self, o):
        if isinstance(o, np.ndarray):
            return NotImplemented
        return cmp('<=', self, SR.lift(o))

    def __gt__(self, o):
        if isinstance(o, np.ndarray):
            return NotImplemented
        return cmp('<', SR.lift(o), self)

    def __ge__(self, o):
        if isinstance(o, np.ndarray):
            return NotImplemented
        return cmp('<=', SR.lift(o), self)

    def __eq__(self, o):
        if isinstance(o, np.ndarray):
            return NotImplemented
        if o is None or isinstance(o, str):
            return False
        try:
            o = SR.lift(o)
        except TypeError:
            return NotImplemented
        return cmp('==', self, o)

    def __ne__(self, o):
        if isinstance(o, np.ndarray):
            return NotImplemented
        if o is None or isinstance(o, str):
            return True
        try:
            o = SR.lift(o)
        except TypeError:
            return NotImplemented
        return snot(cmp('==', self, o))

    def __hash__(self):
        return self.id

    # -- conversions that would lose symbolic content are engine errors -----------------------------
    def __float__(self):
        if self.op == 'c':
            return float(self.extra)
        c = ctx()
        if c is not None and c.concretize is not None:
            return c.concretize(self)
        raise EngineError("float() of a symbolic value: %s" % (self,))

    def __int__(self):
        if self.op == 'c' and self.extra.denominator == 1:
            return int(self.extra)
        if self.op == 'c':
            return int(self.extra)
        raise EngineError("int() of a symbolic value: %s" % (self,))

    __index__ = None

    def __bool__(self):
        if self.op == 'c':
            return self.extra != 0
        return bool(snot(cmp('==', self, ZERO)))

    def __round__(self, n=None):
        if self.op == 'c':
            return SR.const(round(self.extra, n) if n is not None else round(self.extra))
        raise EngineError("round() of a symbolic value")

    def __repr__(self):
        return show(self)

    __str__ = __repr__

    def __format__(self, spec):
        if self.op == 'c':
            return format(float(self.extra), spec)
        # opaque rendering token (A9: str.format renders the correctly rounded decimal): identifies value and format
        return '\u27e6%d|%s\u27e7' % (self.id, spec)


class SB:
    """symbolic boolean"""
    __slots__ = ('op', 'args', 'extra', 'id', '__weakref__')

    def __bool__(self):
        if self.op == 'T':
            return True
        if self.op == 'F':
            return False
        c = ctx()
        if c is None:
            # closed terms (constants and pi only) are decided numerically
            try:
                return bool(evaluate([self], {})[self.id])
            except EvalUndefined:
                raise EngineError("symbolic branch outside an exploration context: %s" % (self,))
        return c.decide(self)

    def __and__(self, o):
        return sand(self, SB_lift(o))

    def __rand__(self, o):
        return sand(SB_lift(o), self)

    def __or__(self, o):
        return sor(self, SB_lift(o))

    def __ror__(self, o):
        return sor(SB_lift(o), self)

    def __invert__(self):
        return snot(self)

    def __eq__(self, o):
        if isinstance(o, (bool, np.bool_)):
            return self if o else snot(self)
        if isinstance(o, (int, np.integer)) and int(o) in (0, 1):
            return self if int(o) == 1 else snot(self)      # `success == 0` on a boolean
        if isinstance(o, SB):
            return sor(sand(self, o), sand(snot(self), snot(o)))
        return NotImplemented

    def __ne__(self, o):
        r = self.__eq__(o)
        if r is NotImplemented:
            return r
        return snot(r)

    def __hash__(self):
        return self.id

    def __repr__(self):
        return show(self)

    # numpy's logical ufuncs on object arrays look for these
    def logical_not(self):
        return snot(self)

    def logical_and(self, o):
        return sand(self, SB_lift(o))

    def logical_or(self, o):
        return sor(self, SB_lift(o))


def SB_lift(x):
    if isinstance(x, SB):
        return x
    if isinstance(x, (bool, np.bool_)):
        return TRUE if x else FALSE
    if isinstance(x, SR):
        return snot(cmp('==', x, ZERO))
    if is_number(x):
        return TRUE if x else FALSE
    raise TypeError("cannot lift %r to SB" % (type(x),))


ZERO = ONE = TWO = MONE = PI = TRUE = FALSE = INF = None


def _init_constants():
    global ZERO, ONE, TWO, MONE, PI, TRUE, FALSE, INF
    ZERO = SR.const(0)
    ONE = SR.const(1)
    TWO = SR.const(2)
    MONE = SR.const(-1)
    PI = SR.var('pi')
    INF = SR.var('INFINITY')
    TRUE = _mk(SB, 'T', ())
    FALSE = _mk(SB, 'F', ())


_init_constants()


# ------------------------------------------------------------------------------------------------
# smart constructors

def add(a, b):
    if a.op == 'c':
        if b.op == 'c':
            return SR.const(a.extra + b.extra)
        if a.extra == 0:
            return b
    elif b.op == 'c' and b.extra == 0:
        return a
    if b.op == 'neg' and b.args[0] is a:
        return ZERO
    if a.op == 'neg' and a.args[0] is b:
        return ZERO
    return _mk(SR, '+', (a, b))


def neg(a):
    if a.op == 'c':
        return SR.const(-a.extra)
    if a.op == 'neg':
        return a.args[0]
    return _mk(SR, 'neg', (a,))


def mul(a, b):
    if a.op == 'c':
        if b.op == 'c':
            return SR.const(a.extra * b.extra)
        if a.extra == 0:
            return ZERO
        if a.extra == 1:
            return b
        if a.extra == -1:
            return neg(b)
    elif b.op == 'c':
        if b.extra == 0:
            return ZERO
        if b.extra == 1:
            return a
        if b.extra == -1:
            return neg(a)
    if a.op == 'neg' and b.op == 'neg':
        return mul(a.args[0], b.args[0])
    if a.op == 'neg':
        return neg(mul(a.args[0], b))
    if b.op == 'neg':
        return neg(mul(a, b.args[0]))
    return _mk(SR, '*', (a, b))


def div(a, b):
    if b.op == 'c':
        if b.extra == 0:
            c = ctx()
            if c is not None:
                c.safety('division by the constant zero', FALSE)
            raise ZeroDivisionError("division by constant zero in symbolic execution")
        return mul(a, SR.const(1 / b.extra))
    if b.op == 'fn' and b.extra == 'tan':
        return div(mul(a, fn('cos', b.args[0])), fn('sin', b.args[0]))
    c = ctx()
    if c is not None:
        c.safety('division: denominator non-zero', snot(cmp('==', b, ZERO)), kind='div', term=b)
    if a.op == 'c' and a.extra == 0:
        return ZERO
    if b.op == 'neg':
        return neg(div(a, b.args[0]))
    if a.op == 'neg':
        return neg(div(a.args[0], b))
    return _mk(SR, '/', (a, b))


_TRIG_SPECIAL = {}


def _pi_multiple(a):
    """return Fraction k if a == k*pi syntactically (small patterns), else None"""
    if a is PI:
        return Fraction(1)
    if a.op == 'c' and a.extra == 0:
        return Fraction(0)
    if a.op == 'neg':
        k = _pi_multiple(a.args[0])
        return None if k is None else -k
    if a.op == '*':
        x, y = a.args
        if x.op == 'c':
            k = _pi_multiple(y)
            return None if k is None else k * x.extra
        if y.op == 'c':
            k = _pi_multiple(x)
            return None if k is None else k * y.extra
    return None


def _is_sum_of_squares(t):
    """syntactic sum of squares (x*x + y*y + ... + non-negative constants): non-negative without a proof"""
    stack = [t]
    while stack:
        n = stack.pop()
        if n.op == '+':
            stack.extend(n.args)
        elif n.op == '*' and n.args[0] is n.args[1]:
            continue
        elif n.op == 'c' and n.extra >= 0:
            continue
        elif n.op == '*' and n.args[0].op == 'c' and n.args[0].extra >= 0:
            stack.append(n.args[1])
        elif n.op == '*' and n.args[1].op == 'c' and n.args[1].extra >= 0:
            stack.append(n.args[0])
        else:
            return False
    return True


def fn(name, a):
    c = ctx()
    if name == 'abs':
        if a.op == 'c':
            return SR.const(abs(a.extra))
        if a.op == 'neg':
            return fn('abs', a.args[0])
        if a.op == 'fn' and a.extra in ('abs', 'sqrt'):
            return a
        if a is PI:
            return a
        return _mk(SR, 'fn', (a,), 'abs')
    if name == 'sqrt':
        if a.op == 'c':
            if a.extra < 0:
                if c is not None:
                    c.safety('sqrt of a negative constant', FALSE)
                raise EngineError("sqrt of negative constant")
            n, d = a.extra.numerator, a.extra.denominator
            rn, rd = math.isqrt(n), math.isqrt(d)
            if rn * rn == n and rd * rd == d:
                return SR.const(Fraction(rn, rd))
        if c is not None and not _is_sum_of_squares(a):
            c.safety('sqrt: argument non-negative', cmp('<=', ZERO, a), kind='sqrt', term=a)
        # sqrt(x*x) is |x|
        if a.op == '*' and a.args[0] is a.args[1]:
            return fn('abs', a.args[0])
        return _mk(SR, 'fn', (a,), 'sqrt')
    if name in ('sin', 'cos'):
        k = _pi_multiple(a)
        if k is not None and (2 * k).denominator == 1:
            q = int(2 * k) % 4
            val = {'sin': [0, 1, 0, -1], 'cos': [1, 0, -1, 0]}[name][q]
            return SR.const(val)
        if a.op == 'neg':
            r = fn(name, a.args[0])
            return neg(r) if name == 'sin' else r
        if a.op == 'fn' and a.extra == 'arccos':
            x = a.args[0]
            if name == 'cos':
                return x
            return fn('sqrt', add(ONE, neg(mul(x, x))))
        return _mk(SR, 'fn', (a,), name)
    if name == 'tan':
        # kept opaque so that 1/tan(x) can be evaluated as cos(x)/sin(x) (cot is finite at pi/2, where IEEE
        # arithmetic returns 6e-17 and the real value is 0); tan itself still demands cos(x) != 0
        k = _pi_multiple(a)
        if k is not None and k.denominator == 1:
            return ZERO
        # (no well-definedness obligation here: the only occurrence in the code base is as a divisor, see div)
        return _mk(SR, 'fn', (a,), 'tan')
    if name == 'arccos':
        if a.op == 'c':
            if a.extra == 1:
                return ZERO
            if a.extra == -1:
                return PI
            if a.extra == 0:
                return mul(SR.const(Fraction(1, 2)), PI)
        if c is not None:
            c.safety('arccos: argument in [-1, 1]', sand(cmp('<=', MONE, a), cmp('<=', a, ONE)),
                     kind='arccos', term=a)
        return _mk(SR, 'fn', (a,), 'arccos')
    if name == 'arcsin':
        if a.op == 'c' and a.extra == 0:
            return ZERO
        if c is not None:
            c.safety('arcsin: argument in [-1, 1]', sand(cmp('<=', MONE, a), cmp('<=', a, ONE)),
                     kind='arccos', term=a)
        return _mk(SR, 'fn', (a,), 'arcsin')
    if name == 'floor':
        if a.op == 'c':
            return SR.const(math.floor(a.extra))
        return _mk(SR, 'fn', (a,), 'floor')
    return _mk(SR, 'fn', (a,), name)


def fn2(name, a, b):
    return _mk(SR, 'fn2', (a, b), name)


def ite(cond, a, b):
    cond = SB_lift(cond)
    a = SR.lift(a)
    b = SR.lift(b)
    if cond.op == 'T':
        return a
    if cond.op == 'F':
        return b
    if a is b:
        return a
    return _mk(SR, 'ite', (cond, a, b))


def uf(name, *args):
    """uninterpreted function application (real-valued)"""
    return _mk(SR, 'uf', tuple(SR.lift(a) for a in args), name)


def cmp(op, a, b):
    if a.op == 'c' and b.op == 'c':
        r = {'<': a.extra < b.extra, '<=': a.extra <= b.extra, '==': a.extra == b.extra}[op]
        return TRUE if r else FALSE
    if a is b:
        return TRUE if op in ('<=', '==') else FALSE
    if op == '==' and a.id > b.id:
        a, b = b, a
    return _mk(SB, op, (a, b))


def snot(a):
    if a.op == 'T':
        return FALSE
    if a.op == 'F':
        return TRUE
    if a.op == 'not':
        return a.args[0]
    if a.op == '<':
        return _mk(SB, '<=', (a.args[1], a.args[0]))
    if a.op == '<=':
        return _mk(SB, '<', (a.args[1], a.args[0]))
    return _mk(SB, 'not', (a,))


def sand(*xs):
    out = []
    for x in xs:
        x = SB_lift(x)
        if x.op == 'F':
            return FALSE
        if x.op == 'T':
            continue
        if x.op == 'and':
            out.extend(x.args)
        else:
            out.append(x)
    seen = []
    ids = set()
    for x in out:
        if x.id not in ids:
            ids.add(x.id)
            seen.append(x)
    if not seen:
        return TRUE
    if len(seen) == 1:
        return seen[0]
    return _mk(SB, 'and', tuple(seen))


def sor(*xs):
    out = []
    for x in xs:
        x = SB_lift(x)
        if x.op == 'T':
            return TRUE
        if x.op == 'F':
            continue
        if x.op == 'or':
            out.extend(x.args)
        else:
            out.append(x)
    seen = []
    ids = set()
    for x in out:
        if x.id not in ids:
            ids.add(x.id)
            seen.append(x)
    if not seen:
        return FALSE
    if len(seen) == 1:
        return seen[0]
    return _mk(SB, 'or', tuple(seen))


def implies(a, b):
    return sor(snot(SB_lift(a)), SB_lift(b))


def bvar(name):
    return _mk(SB, 'bv', (), name)


def eq(a, b):
    return cmp('==', SR.lift(a), SR.lift(b))


def le(a, b):
    return cmp('<=', SR.lift(a), SR.lift(b))


def lt(a, b):
    return cmp('<', SR.lift(a), SR.lift(b))


# ------------------------------------------------------------------------------------------------
# printing

def show(t, depth=6):
    if depth <= 0:
        return '…'
    if isinstance(t, SR):
        if t.op == 'c':
            v = t.extra
            if v.denominator == 1:
                return str(v.numerator)
            f = float(v)
            if Fraction(f) == v and len(repr(f)) < 12:
                return repr(f)
            return '%d/%d' % (v.numerator, v.denominator) if len(str(v.denominator)) < 8 else repr(f)
        if t.op == 'v':
            return t.extra
        if t.op == 'neg':
            return '-' + show(t.args[0], depth - 1)
        if t.op in '+*/':
            return '(' + show(t.args[0], depth - 1) + ' ' + t.op + ' ' + show(t.args[1], depth - 1) + ')'
        if t.op == 'fn':
            return t.extra + '(' + show(t.args[0], depth - 1) + ')'
        if t.op in ('fn2', 'uf'):
            return t.extra + '(' + ', '.join(show(a, depth - 1) for a in t.args) + ')'
        if t.op == 'ite':
            return 'ite(' + ', '.join(show(a, depth - 1) for a in t.args) + ')'
    else:
        if t.op in ('T', 'F'):
            return 'True' if t.op == 'T' else 'False'
        if t.op in ('<', '<=', '=='):
            return show(t.args[0], depth - 1) + ' ' + t.op + ' ' + show(t.args[1], depth - 1)
        if t.op == 'not':
            return 'not(' + show(t.args[0], depth - 1) + ')'
        if t.op in ('and', 'or'):
            return '(' + (' %s ' % t.op).join(show(a, depth - 1) for a in t.args) + ')'
        if t.op == 'bv':
            return t.extra
    return '?%s' % t.op


# ------------------------------------------------------------------------------------------------
# traversal / evaluation

def subterms(roots):
    """all nodes reachable from roots, children before parents"""
    seen = {}
    order = []
    stack = [(r, False) for r in roots]
    while stack:
        n, done = stack.pop()
        if done:
            order.append(n)
            continue
        if n.id in seen:
            continue
        seen[n.id] = n
        stack.append((n, True))
        for a in n.args:
            if isinstance(a, (SR, SB)) and a.id not in seen:
                stack.append((a, False))
    return order


def free_vars(roots):
    return sorted({n.extra for n in subterms(roots) if isinstance(n, SR) and n.op == 'v'})


class EvalUndefined(Exception):
    pass


def evaluate(roots, env, ufs=None):
    """float evaluation of terms under env: name -> float.  Returns dict id -> value."""
    val = {}
    for n in subterms(roots):
        if isinstance(n, SR):
            if n.op == 'c':
                v = float(n.extra)
            elif n.op == 'v':
                if n.extra == 'pi' and 'pi' not in env:
                    v = math.pi
                else:
                    if n.extra not in env:
                        raise EvalUndefined(n.extra)
                    v = float(env[n.extra])
            elif n.op == '+':
                v = val[n.args[0].id] + val[n.args[1].id]
            elif n.op == '*':
                v = val[n.args[0].id] * val[n.args[1].id]
            elif n.op == '/':
                d = val[n.args[1].id]
                v = val[n.args[0].id] / d if d != 0 else float('nan')
            elif n.op == 'neg':
                v = -val[n.args[0].id]
            elif n.op == 'fn':
                x = val[n.args[0].id]
                f = n.extra
                try:
                    if f == 'sqrt':
                        v = math.sqrt(x) if x >= 0 else (0.0 if x > -1e-12 else float('nan'))
                    elif f == 'abs':
                        v = abs(x)
                    elif f == 'sin':
                        v = math.sin(x)
                    elif f == 'cos':
                        v = math.cos(x)
                    elif f == 'tan':
                        v = math.tan(x)
                    elif f == 'arccos':
                        v = math.acos(max(-1.0, min(1.0, x))) if -1 - 1e-9 <= x <= 1 + 1e-9 else float('nan')
                    elif f == 'arcsin':
                        v = math.asin(max(-1.0, min(1.0, x))) if -1 - 1e-9 <= x <= 1 + 1e-9 else float('nan')
                    elif f == 'floor':
                        v = float(math.floor(x))
                    else:
                        raise EvalUndefined(f)
                except (ValueError, OverflowError):
                    v = float('nan')
            elif n.op == 'fn2':
                if n.extra == 'arctan2':
                    v = math.atan2(val[n.args[0].id], val[n.args[1].id])
                else:
                    raise EvalUndefined(n.extra)
            elif n.op == 'ite':
                v = val[n.args[1].id] if val[n.args[0].id] else val[n.args[2].id]
            elif n.op == 'uf':
                if ufs is None or n.extra not in ufs:
                    raise EvalUndefined(n.extra)
                v = ufs[n.extra](*[val[a.id] for a in n.args])
            else:
                raise EvalUndefined(n.op)
        else:
            if n.op == 'T':
                v = True
            elif n.op == 'F':
                v = False
            elif n.op == '<':
                v = val[n.args[0].id] < val[n.args[1].id]
            elif n.op == '<=':
                v = val[n.args[0].id] <= val[n.args[1].id]
            elif n.op == '==':
                v = val[n.args[0].id] == val[n.args[1].id]
            elif n.op == 'not':
                v = not val[n.args[0].id]
            elif n.op == 'and':
                v = all(val[a.id] for a in n.args)
            elif n.op == 'or':
                v = any(val[a.id] for a in n.args)
            elif n.op == 'bv':
                if n.extra not in env:
                    raise EvalUndefined(n.extra)
                v = bool(env[n.extra])
            else:
                raise EvalUndefined(n.op)
        val[n.id] = v
    return val


def eval1(t, env, ufs=None):
    return evaluate([t], env, ufs)[t.id]


# ------------------------------------------------------------------------------------------------
# dual numbers (forward-mode derivative of the executed program): value + eps * deriv, eps^2 = 0

class Dual:
    __slots__ = ('v', 'd')

    def __init__(self, v, d):
        self.v = SR.lift(v)
        self.d = SR.lift(d)

    @staticmethod
    def lift(x):
        if isinstance(x, Dual):
            return x
        if isinstance(x, np.ndarray):
            if x.size == 1:
                return Dual.lift(x.reshape(-1)[0])
            raise TypeError
        return Dual(SR.lift(x), ZERO)

    def _bin(self, o, f):
        if isinstance(o, np.ndarray):
            return NotImplemented
        try:
            o = Dual.lift(o)
        except TypeError:
            return NotImplemented
        return f(self, o)

    def __add__(self, o):
        return self._bin(o, lambda a, b: Dual(a.v + b.v, a.d + b.d))

    __radd__ = __add__

    def __sub__(self, o):
        return self._bin(o, lambda a, b: Dual(a.v - b.v, a.d - b.d))

    def __rsub__(self, o):
        return self._bin(o, lambda a, b: Dual(b.v - a.v, b.d - a.d))

    def __mul__(self, o):
        return self._bin(o, lambda a, b: Dual(a.v * b.v, a.v * b.d + a.d * b.v))

    __rmul__ = __mul__

    def __truediv__(self, o):
        return self._bin(o, lambda a, b: Dual(a.v / b.v, (a.d * b.v - a.v * b.d) / (b.v * b.v)))

    def __rtruediv__(self, o):
        return self._bin(o, lambda a, b: Dual(b.v / a.v, (b.d * a.v - b.v * a.d) / (a.v * a.v)))

    def __neg__(self):
        return Dual(-self.v, -self.d)

    def __pos__(self):
        return self

    def __pow__(self, e):
        if isinstance(e, (int, np.integer)) or (isinstance(e, float) and e == int(e)):
            e = int(e)
            if e == 0:
                return Dual(ONE, ZERO)
            if e < 0:
                return Dual(ONE, ZERO) / (self ** (-e))
            r = self
            for _ in range(e - 1):
                r = r * self
            return r
        raise EngineError("Dual: unsupported exponent")

    def __abs__(self):
        # |x| is differentiable away from 0; sign is decided by forking on the value
        if bool(self.v >= 0):
            return self
        return -self

    def sqrt(self):
        s = self.v.sqrt()
        return Dual(s, self.d / (2 * s))

    def sin(self):
        return Dual(self.v.sin(), self.d * self.v.cos())

    def cos(self):
        return Dual(self.v.cos(), -(self.d * self.v.sin()))

    def tan(self):
        return self.sin() / self.cos()

    def arccos(self):
        return Dual(self.v.arccos(), -(self.d / (ONE - self.v * self.v).sqrt()))

    def conjugate(self):
        return self

    conj = conjugate

    def copy(self):
        return self

    def __deepcopy__(self, memo):
        return self

    # comparisons look at the value only (branch regions are open sets away from boundaries)
    def __lt__(self, o):
        return self.v < Dual.lift(o).v

    def __le__(self, o):
        return self.v <= Dual.lift(o).v

    def __gt__(self, o):
        return self.v > Dual.lift(o).v

    def __ge__(self, o):
        return self.v >= Dual.lift(o).v

    def __eq__(self, o):
        if o is None:
            return False
        try:
            o = Dual.lift(o)
        except TypeError:
            return NotImplemented
        return self.v == o.v

    def __ne__(self, o):
        if o is None:
            return True
        try:
            o = Dual.lift(o)
        except TypeError:
            return NotImplemented
        return self.v != o.v

    def __hash__(self):
        return hash((self.v.id, self.d.id))

    def __float__(self):
        raise EngineError("float() of a dual number")

    def __repr__(self):
        return 'Dual(%s, %s)' % (show(self.v, 4), show(self.d, 4))


def exact_eval(roots, env):
    """exact rational evaluation (Fractions) of terms built from + * / neg abs ite and comparisons;
    raises EvalUndefined for anything else (sqrt of a non-square, trig, ...)"""
    val = {}
    for n in subterms(roots):
        a = [val[x.id] for x in n.args]
        if isinstance(n, SR):
            op = n.op
            if op == 'c':
                v = n.extra
            elif op == 'v':
                if n.extra not in env:
                    raise EvalUndefined(n.extra)
                v = Fraction(env[n.extra])
            elif op == '+':
                v = a[0] + a[1]
            elif op == '*':
                v = a[0] * a[1]
            elif op == '/':
                if a[1] == 0:
                    raise EvalUndefined('division by zero')
                v = a[0] / a[1]
            elif op == 'neg':
                v = -a[0]
            elif op == 'ite':
                v = a[1] if a[0] else a[2]
            elif op == 'fn' and n.extra == 'abs':
                v = abs(a[0])
            elif op == 'fn' and n.extra == 'floor':
                v = Fraction(math.floor(a[0]))
            elif op == 'fn' and n.extra == 'sqrt':
                x = a[0]
                if x < 0:
                    raise EvalUndefined('sqrt<0')
                rn, rd = math.isqrt(x.numerator), math.isqrt(x.denominator)
                if rn * rn != x.numerator or rd * rd != x.denominator:
                    raise EvalUndefined('sqrt inexact')
                v = Fraction(rn, rd)
            else:
                raise EvalUndefined(op + ':' + str(n.extra))
        else:
            op = n.op
            if op == 'T':
                v = True
            elif op == 'F':
                v = False
            elif op == '<':
                v = a[0] < a[1]
            elif op == '<=':
                v = a[0] <= a[1]
            elif op == '==':
                v = a[0] == a[1]
            elif op == 'not':
                v = not a[0]
            elif op == 'and':
                v = all(a)
            elif op == 'or':
                v = any(a)
            else:
                raise EvalUndefined(op)
        val[n.id] = v
    return val
