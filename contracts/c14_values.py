"""C14 -- value semantics: operators, copies, get-accessors and helpers neither mutate nor alias operands.

Frame obligations per explored path (the paths cover all operand values, so no sampling is involved):
  * every ndarray reachable from an operand (tm.TM, tm.TAA, Screw/Wrench.data, array arguments) holds the
    identical cells after the call;
  * for operators, copies and get-accessors: no ndarray of the result payload shares storage with an
    ndarray of an operand (numpy.shares_memory), and the result object is not an operand.
In replay (concrete) mode the same clauses are evaluated on the native objects.
"""
import numpy as _np
from pyvc.contract import Contract, register
from pyvc import spec as S
from pyvc import terms as T
from pyvc import stubs, npx
from .l1_tm import TMM, BH, MR, mk_tm

SCR = 'basic_robotics.general.faser_screw'
WR = 'basic_robotics.general.faser_wrench'
FSR = 'basic_robotics.general.faser_general'


def payload(obj, depth=0):
    """list of (label, ndarray) reachable as numeric payload of obj (frames/positions of screws excluded)"""
    out = []
    if isinstance(obj, _np.ndarray):
        if obj.dtype == object and obj.size and not isinstance(obj.reshape(-1)[0], (T.SR, float, int)) and depth < 2:
            for i, x in enumerate(obj.reshape(-1)):
                out += [('[%d]%s' % (i, l), a) for l, a in payload(x, depth + 1)]
        else:
            out.append(('', obj))
    elif hasattr(obj, 'TM') and hasattr(obj, 'TAA'):
        out += [('.TM', obj.TM), ('.TAA', obj.TAA)]
    elif hasattr(obj, 'data') and hasattr(obj, 'frame_applied'):
        out.append(('.data', obj.data))
    elif isinstance(obj, (list, tuple)) and depth < 3:
        for i, x in enumerate(obj):
            out += [('[%d]%s' % (i, l), a) for l, a in payload(x, depth + 1)]
    return out


def fingerprint(a):
    if a.dtype == object:
        return tuple(id(x) if not isinstance(x, (int, float)) else x for x in a.reshape(-1)), a.shape
    return a.tobytes(), a.shape


class ValueContract(Contract):
    prop = 'C14'
    sharing = True          # operators / copies / get-accessors: result must not alias operands
    max_paths = 64
    tol = 1e-9

    def prepare(self):
        stubs.install()

    def setup(self, g):
        return (), {}

    def operands(self, g, m):
        raise NotImplementedError

    def op(self, g, m, ops):
        raise NotImplementedError

    def run(self, g, fn, args, kwargs):
        class M:
            pass
        m = M()
        m.tm = g.module(TMM).tm
        m.Screw = g.module(SCR).Screw
        m.Wrench = g.module(WR).Wrench
        m.fsr = g.module(FSR)
        m.mr = g.module(MR)
        ops = self.operands(g, m)
        before = []
        for i, o in enumerate(ops):
            for lbl, a in payload(o):
                before.append((i, lbl, a, fingerprint(a)))
        res = self.op(g, m, ops)
        return ops, before, res

    def post(self, g, out, args, kwargs):
        ops, before, res = out
        for i, lbl, a, fp in before:
            # the operand must still hold this array with identical content
            cur = dict(payload(ops[i])).get(lbl)
            same_obj = cur is a
            g.holds('operand %d%s: content unchanged' % (i, lbl), fingerprint(a) == fp)
            if cur is not None and not same_obj:
                g.holds('operand %d%s: rebound to equal content' % (i, lbl), fingerprint(cur) == fp)
        if self.sharing and res is not None:
            for rl, ra in payload(res):
                for i, lbl, a, fp in before:
                    g.holds('result%s shares no storage with operand %d%s' % (rl, i, lbl), not _np.shares_memory(ra, a))
            g.holds('result is not an operand object', all(res is not o for o in ops))
        self.extra_post(g, ops, res)

    def extra_post(self, g, ops, res):
        pass


def _tm2(g, m):
    return [mk_tm(g, g.module(TMM), 'a', 'E'), mk_tm(g, g.module(TMM), 'b', 'L')]


def _tm1(g, m):
    return [mk_tm(g, g.module(TMM), 'a', 'E')]


def _tm1_k(g, m):
    return [mk_tm(g, g.module(TMM), 'a', 'E'), g.real('k', lo=0.5, hi=3.0)]


def _tm1_arr6(g, m):
    return [mk_tm(g, g.module(TMM), 'a', 'E'), g.arr(g.reals('y', 6))]


def _tm1_se3(g, m):
    q = g.unit('q', 4)
    p = g.reals('p', 3)
    return [mk_tm(g, g.module(TMM), 'a', 'E'), S.RpT(S.Rq(q), p)]


def _frame(g, m, name):
    return mk_tm(g, g.module(TMM), name, 'E')


def _screw(g, m, name, frame=None, shape=(6, 1)):
    return m.Screw(g.arr(g.reals(name, 6)).reshape(shape), frame)


def _wrench(g, m, name, frame=None):
    return m.Wrench(g.arr(g.reals(name, 6)).reshape((6, 1)), None, frame)


def defop(name, operands, op, sharing=True, target=None, doc='', max_paths=64, probes=None):
    d = dict(max_paths=max_paths, probes=probes, operands=lambda self, g, m: operands(g, m), op=lambda self, g, m, ops: op(m, ops), sharing=sharing,
             target=target, __doc__=doc or name)
    register(type('Val_' + name, (ValueContract,), d))


_T = TMM + ':tm.'
# -- tm: operators, copies, accessors ----------------------------------------------------------------
defop('tm_inv', _tm1, lambda m, o: o[0].inv(), target=_T + 'inv')
defop('tm_copy', _tm1, lambda m, o: o[0].copy(), target=_T + 'copy')
defop('tm_copy_ctor', _tm1, lambda m, o: m.tm(o[0]), target=_T + '__init__')


def _arr_of_tm(m, o):
    a = _np.empty((1,), dtype=object)
    a[0] = o[0]
    return m.tm(a)


defop('tm_ctor_array_of_tm', _tm1, _arr_of_tm, target=_T + '__init__')
defop('tm_spawnNew', _tm1, lambda m, o: o[0].spawnNew(o[0]), target=_T + 'spawnNew')
defop('tm_T', _tm1, lambda m, o: o[0].TM.T.copy() if False else None, sharing=False, target=_T + 'T')
defop('tm_gRot', _tm1, lambda m, o: o[0].gRot(), target=_T + 'gRot')
defop('tm_gTAA', _tm1, lambda m, o: o[0].gTAA(), target=_T + 'gTAA')
defop('tm_gTM', _tm1, lambda m, o: o[0].gTM(), target=_T + 'gTM')
defop('tm_gPos', _tm1, lambda m, o: o[0].gPos(), target=_T + 'gPos')
defop('tm_getQuat', _tm1, lambda m, o: o[0].getQuat(), target=_T + 'getQuat')
defop('tm_adjoint', _tm1, lambda m, o: o[0].adjoint(), target=_T + 'adjoint')
defop('tm_tripleUnit', _tm1, lambda m, o: o[0].tripleUnit(), target=_T + 'tripleUnit')
defop('tm_abs', _tm1, lambda m, o: abs(o[0]), target=_T + '__abs__')
defop('tm_matmul', _tm2, lambda m, o: o[0] @ o[1], target=_T + '__matmul__')
defop('tm_matmul_arr', _tm1_se3, lambda m, o: o[0] @ o[1], target=_T + '__matmul__')
defop('tm_rmatmul_arr', _tm1_se3, lambda m, o: o[0].__rmatmul__(o[1]), target=_T + '__rmatmul__')
defop('tm_mul_tm', _tm2, lambda m, o: o[0] * o[1], target=_T + '__mul__')
defop('tm_mul_k', _tm1_k, lambda m, o: o[0] * o[1], target=_T + '__mul__')
defop('tm_rmul_k', _tm1_k, lambda m, o: o[1] * o[0], target=_T + '__rmul__')
defop('tm_add', _tm2, lambda m, o: o[0] + o[1], target=_T + '__add__')
defop('tm_add_arr6', _tm1_arr6, lambda m, o: o[0] + o[1], target=_T + '__add__')
defop('tm_add_k', _tm1_k, lambda m, o: o[0] + o[1], target=_T + '__add__')
defop('tm_sub', _tm2, lambda m, o: o[0] - o[1], target=_T + '__sub__')
defop('tm_sub_arr6', _tm1_arr6, lambda m, o: o[0] - o[1], target=_T + '__sub__')
defop('tm_sub_k', _tm1_k, lambda m, o: o[0] - o[1], target=_T + '__sub__')
defop('tm_div_k', _tm1_k, lambda m, o: o[0] / o[1], target=_T + '__truediv__')
defop('tm_floordiv_k', _tm1_k, lambda m, o: o[0] // o[1], target=_T + '__floordiv__')
defop('tm_floordiv_tm', _tm2, lambda m, o: o[0] // o[1], target=_T + '__floordiv__')
defop('tm_eq', _tm2, lambda m, o: o[0] == o[1], sharing=False, target=_T + '__eq__')
defop('tm_lt', _tm2, lambda m, o: o[0] < o[1], sharing=False, target=_T + '__lt__', max_paths=600)
defop('tm_ge', _tm2, lambda m, o: o[0] >= o[1], sharing=False, target=_T + '__ge__', max_paths=600)

# -- Screw -------------------------------------------------------------------------------------------
_S = SCR + ':Screw.'


def _s1(g, m):
    return [_screw(g, m, 's', _frame(g, m, 'f'))]


def _s2_same(g, m):
    f = _frame(g, m, 'f')
    return [_screw(g, m, 's', f), _screw(g, m, 'r', f)]


def _s2_diff(g, m):
    return [_screw(g, m, 's', _frame(g, m, 'f')), _screw(g, m, 'r', _frame(g, m, 'h'))]


def _s1_k(g, m):
    return [_screw(g, m, 's', _frame(g, m, 'f')), g.real('k', lo=0.5, hi=3.0)]


def _s1_arr6(g, m):
    return [_screw(g, m, 's', _frame(g, m, 'f')), g.arr(g.reals('y', 6))]


def _s1_arr61(g, m):
    return [_screw(g, m, 's', _frame(g, m, 'f')), g.arr(g.reals('y', 6)).reshape((6, 1))]


defop('screw_copy', _s1, lambda m, o: o[0].copy(), target=_S + 'copy')
defop('screw_flatten', _s1, lambda m, o: o[0].flatten(), target=_S + 'flatten')
defop('screw_getData', _s1, lambda m, o: o[0].getData(), target=_S + 'getData')
defop('screw_reshape', _s1, lambda m, o: o[0].reshape((6,)), target=_S + 'reshape')
defop('screw_abs', _s1, lambda m, o: abs(o[0]), target=_S + '__abs__')
defop('screw_cross_same', _s2_same, lambda m, o: o[0].cross(o[1]), target=_S + 'cross')
defop('screw_cross_diff', _s2_diff, lambda m, o: o[0].cross(o[1]), target=_S + 'cross')
defop('screw_dot_diff', _s2_diff, lambda m, o: o[0].dot(o[1]), target=_S + 'dot')
defop('screw_dualScalarMultiply', _s1_k, lambda m, o: o[0].dualScalarMultiply([o[1], o[1] * 2]), target=_S + 'dualScalarMultiply')
defop('screw_add_same', _s2_same, lambda m, o: o[0] + o[1], target=_S + '__add__')
defop('screw_add_diff', _s2_diff, lambda m, o: o[0] + o[1], target=_S + '__add__')
defop('screw_add_arr6', _s1_arr6, lambda m, o: o[0] + o[1], target=_S + '__add__')
defop('screw_add_arr61', _s1_arr61, lambda m, o: o[0] + o[1], target=_S + '__add__')
defop('screw_add_k', _s1_k, lambda m, o: o[0] + o[1], target=_S + '__add__')
defop('screw_radd_k', _s1_k, lambda m, o: o[1] + o[0], target=_S + '__radd__')
defop('screw_sub_same', _s2_same, lambda m, o: o[0] - o[1], target=_S + '__sub__')
defop('screw_sub_diff', _s2_diff, lambda m, o: o[0] - o[1], target=_S + '__sub__')
defop('screw_sub_arr6', _s1_arr6, lambda m, o: o[0] - o[1], target=_S + '__sub__')
defop('screw_sub_k', _s1_k, lambda m, o: o[0] - o[1], target=_S + '__sub__')
defop('screw_rsub_k', _s1_k, lambda m, o: o[1] - o[0], target=_S + '__rsub__')
defop('screw_rsub_arr6', _s1_arr6, lambda m, o: o[0].__rsub__(o[1]), target=_S + '__rsub__')
defop('screw_mul_k', _s1_k, lambda m, o: o[0] * o[1], target=_S + '__mul__')
defop('screw_rmul_k', _s1_k, lambda m, o: o[1] * o[0], target=_S + '__rmul__')
defop('screw_mul_screw', _s2_diff, lambda m, o: o[0] * o[1], target=_S + '__mul__')
defop('screw_div_k', _s1_k, lambda m, o: o[0] / o[1], target=_S + '__truediv__')
defop('screw_floordiv_k', _s1_k, lambda m, o: o[0] // o[1], target=_S + '__floordiv__')
defop('screw_matmul_screw', _s2_diff, lambda m, o: o[0] @ o[1], target=_S + '__matmul__')
defop('screw_eq', _s2_diff, lambda m, o: o[0] == o[1], sharing=False, target=_S + '__eq__')

# -- Wrench ------------------------------------------------------------------------------------------
_W = WR + ':Wrench.'


def _w1(g, m):
    return [_wrench(g, m, 'w', _frame(g, m, 'f'))]


def _w2_diff(g, m):
    return [_wrench(g, m, 'w', _frame(g, m, 'f')), _wrench(g, m, 'u', _frame(g, m, 'h'))]


def _w2_same(g, m):
    f = _frame(g, m, 'f')
    return [_wrench(g, m, 'w', f), _wrench(g, m, 'u', f)]


def _w1_k(g, m):
    return [_wrench(g, m, 'w', _frame(g, m, 'f')), g.real('k', lo=0.5, hi=3.0)]


def _w_ctor3(g, m):
    return [g.arr(g.reals('f', 3)), _frame(g, m, 'p'), _frame(g, m, 'h')]


defop('wrench_getMoment', _w1, lambda m, o: o[0].getMoment(), target=_W + 'getMoment')
defop('wrench_getForce', _w1, lambda m, o: o[0].getForce(), target=_W + 'getForce')
defop('wrench_copy', _w1, lambda m, o: o[0].copy(), target=_W + 'copy')
defop('wrench_abs', _w1, lambda m, o: abs(o[0]), target=_W + '__abs__')
defop('wrench_add_diff', _w2_diff, lambda m, o: o[0] + o[1], target=_W + '__add__')
defop('wrench_add_same', _w2_same, lambda m, o: o[0] + o[1], target=_W + '__add__')
defop('wrench_sub_diff', _w2_diff, lambda m, o: o[0] - o[1], target=_W + '__sub__')
defop('wrench_sub_same', _w2_same, lambda m, o: o[0] - o[1], target=_W + '__sub__')
defop('wrench_mul_k', _w1_k, lambda m, o: o[0] * o[1], target=_W + '__mul__')
defop('wrench_rmul_k', _w1_k, lambda m, o: o[1] * o[0], target=_W + '__rmul__')
defop('wrench_div_k', _w1_k, lambda m, o: o[0] / o[1], target=_W + '__truediv__')
defop('wrench_ctor_force_point', _w_ctor3, lambda m, o: m.Wrench(o[0], o[1], o[2]), sharing=False, target=_W + '__init__')

# -- helpers: never modify their operands ---------------------------------------------------------------
_F = FSR + ':'


def _tm3(g, m):
    return [mk_tm(g, g.module(TMM), n, 'E') for n in 'abc']


def _tm2_delta(g, m):
    return _tm2(g, m)[:2] + [g.real('d', lo=0.01, hi=1.0)]


def hop(name, operands, op, target, probes=None):
    defop('helper_' + name, operands, op, sharing=False, target=target, probes=probes)


hop('localToGlobal', _tm2, lambda m, o: m.fsr.localToGlobal(o[0], o[1]), BH + ':localToGlobal')
hop('globalToLocal', _tm2, lambda m, o: m.fsr.globalToLocal(o[0], o[1]), BH + ':globalToLocal')
hop('distance', _tm2, lambda m, o: m.fsr.distance(o[0], o[1]), _F + 'distance')
hop('arcDistance', _tm2, lambda m, o: m.fsr.arcDistance(o[0], o[1]), _F + 'arcDistance')
hop('tmAvgMidpoint', _tm2, lambda m, o: m.fsr.tmAvgMidpoint(o[0], o[1]), _F + 'tmAvgMidpoint')
hop('tmInterpMidpoint', _tm2, lambda m, o: m.fsr.tmInterpMidpoint(o[0], o[1]), _F + 'tmInterpMidpoint')
hop('closeLinearGap', _tm2_delta, lambda m, o: m.fsr.closeLinearGap(o[0], o[1], o[2]), _F + 'closeLinearGap')
hop('closeArcGap', _tm2_delta, lambda m, o: m.fsr.closeArcGap(o[0], o[1], o[2]), _F + 'closeArcGap')
hop('IKPath', _tm2, lambda m, o: m.fsr.IKPath(o[0], o[1], 4), _F + 'IKPath')
hop('poseError', _tm2, lambda m, o: m.fsr.poseError(o[0], o[1]), _F + 'poseError')
hop('geometricError', _tm2, lambda m, o: m.fsr.geometricError(o[0], o[1]), _F + 'geometricError')
hop('mirror', _tm2, lambda m, o: m.fsr.mirror(o[0], o[1]), _F + 'mirror')


def _tm2_lookat(g, m):
    a, b = _tm2(g, m)
    d = [b[k] - a[k] for k in range(3)]
    if g.mode != 'concrete':
        g.require(d[0] * d[0] + d[1] * d[1] > 0.01)     # degenerate directions: see the probes (bounded stand-in)
    return [a, b]


_deg = dict(ax0=0.0, ax1=0.0, ax2=0.0, ax3=0.0, ax4=0.0, ax5=0.0, bq0=1.0, bq1=0.0, bq2=0.0, bq3=0.0)
hop('lookAt', _tm2_lookat, lambda m, o: m.fsr.lookAt(o[0], o[1]), _F + 'lookAt',
    probes=[dict(_deg, bp0=0.0, bp1=0.0, bp2=2.0), dict(_deg, bp0=0.0, bp1=0.0, bp2=-3.0),
            dict(_deg, bp0=1.0, bp1=0.5, bp2=2.0)])
hop('planeFromThreePoints', _tm3, lambda m, o: m.fsr.planeFromThreePoints(o[0], o[1], o[2]), _F + 'planeFromThreePoints')
def _tm2_distinct(g, m):
    a, b = _tm2(g, m)
    d2 = (a[0] - b[0]) ** 2 + (a[1] - b[1]) ** 2 + (a[2] - b[2]) ** 2
    g.require(d2 > 0.0001)
    return [a, b]


hop('getUnitVec', _tm2_distinct, lambda m, o: m.fsr.getUnitVec(o[0], o[1]), _F + 'getUnitVec')
hop('adjustRotationToMidpoint', _tm3, lambda m, o: m.fsr.adjustRotationToMidpoint(o[0], o[1], o[2]), _F + 'adjustRotationToMidpoint')
hop('transformByVector', lambda g, m: _tm1(g, m) + [g.arr(g.reals('y', 3))],
    lambda m, o: m.fsr.transformByVector(o[0], o[1]), _F + 'transformByVector')
hop('makeWrench', lambda g, m: [_frame(g, m, 'p'), g.real('k', lo=0.5, hi=3.0), g.arr(g.reals('y', 3))],
    lambda m, o: m.fsr.makeWrench(o[0], o[1], o[2]), _F + 'makeWrench')
hop('setElements', lambda g, m: [g.arr(g.reals('y', 6)), g.arr(g.reals('z', 2))],
    lambda m, o: m.fsr.setElements(o[0], [1, 4], o[1]), _F + 'setElements')


# -- fresh default construction ---------------------------------------------------------------------------

@register
class Val_default_construction(Contract):
    """a default-constructed tm / Screw / Wrench is the identity / zero whatever was done to earlier instances:
    every in-place write an instance exposes is applied to a first default instance, then a second is built"""
    prop = 'C14'
    target = SCR + ':Screw.__init__'
    under_contract = (TMM + ':tm.__init__', WR + ':Wrench.__init__')

    def prepare(self):
        stubs.install()

    def setup(self, g):
        self.x = g.real('x', lo=0.5, hi=3.0)
        return (), {}

    def run(self, g, fn, args, kwargs):
        tm = g.module(TMM).tm
        Screw = g.module(SCR).Screw
        Wrench = g.module(WR).Wrench
        x = self.x
        out = {}
        a = tm()
        a.TM[0, 3] = x
        a.TAA[1, 0] = x
        a[2] = x
        out['tm'] = tm()
        s = Screw()
        s.data[0, 0] = x
        s[1] = x
        s.frame_applied[0] = x
        out['Screw'] = Screw()
        w = Wrench()
        w.data[2, 0] = x
        w[3] = x
        out['Wrench'] = Wrench()
        return out

    def post(self, g, out, args, kwargs):
        t = out['tm']
        g.eq('fresh tm() is the identity matrix', t.gTM(), S.eye(4, t.gTM()))
        g.eq('fresh tm() has a zero six-vector', t.gTAA(), 0 * t.gTAA())
        g.eq('fresh Screw() is zero', out['Screw'].getData(), 0 * out['Screw'].getData())
        g.eq('fresh Screw() frame is the identity', out['Screw'].frame_applied.gTAA(), 0 * out['Screw'].frame_applied.gTAA())
        g.eq('fresh Wrench() is zero', out['Wrench'].getData(), 0 * out['Wrench'].getData())
