"""Contracts for the RRT* planner (properties C15, C16)."""
import numpy as _np
from pyvc.contract import Contract, register
from pyvc import spec as S
from pyvc import terms as T

PP = 'basic_robotics.path_planning.pathplanner'
TM = 'basic_robotics.general.faser_transform'


def _absx(x):
    return abs(x)


def box_of(Lc, Rc):
    """closed axis-aligned box spanned by two opposite corners given in any order:
    lo = mid - |R - L|/2, hi = mid + |R - L|/2   ( = min / max of the corners)"""
    lo, hi = [], []
    for k in range(3):
        mid = (Lc[k] + Rc[k]) / 2
        half = _absx(Rc[k] - Lc[k]) / 2
        lo.append(mid - half)
        hi.append(mid + half)
    return lo, hi


def inside_at(p1, p2, lo, hi, t):
    """the conjunction  t in [0,1]  and  lo <= p1 + t (p2 - p1) <= hi"""
    cs = [0 <= t, t <= 1]
    for k in range(3):
        x = p1[k] + t * (p2[k] - p1[k])
        cs.append(lo[k] <= x)
        cs.append(x <= hi[k])
    return cs


class _ObstructionBase(Contract):
    prop = 'C15'
    target = PP + ':RRTStar.obstruction'
    under_contract = (PP + ':RRTStar.addObstruction', PP + ':PathNode.getPosition', TM + ':tm.__getitem__')
    nboxes = 1
    max_paths = 4000
    timeout = 30.0
    n_samples = 60

    def setup(self, g):
        pp = g.module(PP)
        tmm = g.module(TM)
        self.p1 = g.reals('a', 3, scale=3.0)
        self.p2 = g.reals('b', 3, scale=3.0)
        self.boxes = []
        planner = pp.RRTStar(tmm.tm())
        for i in range(self.nboxes):
            Lc = g.reals('L%d_' % i, 3, scale=2.0)
            Rc = g.reals('R%d_' % i, 3, scale=2.0)
            self.boxes.append((Lc, Rc))
            planner.addObstruction(Lc, Rc)
        z = 0 * self.p1[0]
        n1 = pp.PathNode(tmm.tm([self.p1[0], self.p1[1], self.p1[2], z, z, z]))
        n2 = pp.PathNode(tmm.tm([self.p2[0], self.p2[1], self.p2[2], z, z, z]))
        self.planner = planner
        self.nodes = (n1, n2)
        if g.symbolic:
            self.t = T.SR.var('t_any')     # an arbitrary parameter: obligations about it hold for all t
        return (planner, n1, n2), {}

    def post(self, g, res, args, kwargs):
        p1, p2 = self.p1, self.p2
        # the query must not move its operands (nodes and boxes are reused by later queries)
        for nm, nd, pp in (('first', self.nodes[0], p1), ('second', self.nodes[1], p2)):
            g.eq('position of the %s node is not modified by the query' % nm,
                 S.arr([nd.getPosition()[k] for k in range(3)]), S.arr(pp))
        for i, (Lc, Rc) in enumerate(self.boxes):
            ob = self.planner.obstructions[i]
            g.eq('corners of box %d are not modified by the query' % i,
                 S.arr([ob[0][k] for k in range(3)] + [ob[1][k] for k in range(3)]), S.arr(list(Lc) + list(Rc)))
        if g.mode == 'concrete':
            # exact slab test in floats (oracle independent of the code under test)
            want = any(self._slab(p1, p2, *box_of(Lc, Rc)) for Lc, Rc in self.boxes)
            g.holds('obstruction(n1, n2) == exists box: segment meets box', bool(res) == want)
            return
        if not res:
            # soundness of "free": for an arbitrary t in [0, 1] the point is outside every box
            t = self.t
            for i, (Lc, Rc) in enumerate(self.boxes):
                lo, hi = box_of(Lc, Rc)
                g.holds('free => no point of the segment lies in box %d' % i,
                        T.snot(T.sand(*inside_at(p1, p2, lo, hi, t))))
            return
        # completeness of "obstructed": a witness parameter exists.  Sign split of the half vector, candidates
        # s* in {-1, entry parameters of the three slabs} in the code-independent midpoint parametrisation
        m = [(p1[k] + p2[k]) / 2 for k in range(3)]
        h = [(p1[k] - p2[k]) / 2 for k in range(3)]      # p(s) = m + s h, s in [-1, 1];  t = (1 - s)/2
        sg = []
        for k in range(3):
            if h[k] > 0:
                sg.append(1)
            elif h[k] < 0:
                sg.append(-1)
            else:
                sg.append(0)
        alts = []
        for i, (Lc, Rc) in enumerate(self.boxes):
            lo, hi = box_of(Lc, Rc)
            cands = [-1 + 0 * h[0]]
            for k in range(3):
                if sg[k] > 0:
                    cands.append((lo[k] - m[k]) / h[k])
                elif sg[k] < 0:
                    cands.append((hi[k] - m[k]) / h[k])
            for s in cands:
                t = (1 - s) / 2
                alts.append(T.sand(*inside_at(p1, p2, lo, hi, t)))
        g.holds('obstructed => some point of the segment lies in some box (ghost witnesses)', T.sor(*alts))

    @staticmethod
    def _slab(p1, p2, lo, hi):
        t0, t1 = 0.0, 1.0
        for k in range(3):
            d = p2[k] - p1[k]
            if d == 0:
                if p1[k] < lo[k] or p1[k] > hi[k]:
                    return False
            else:
                a, b = (lo[k] - p1[k]) / d, (hi[k] - p1[k]) / d
                if a > b:
                    a, b = b, a
                t0, t1 = max(t0, a), min(t1, b)
                if t0 > t1:
                    return False
        return True


@register
class Obstruction0(_ObstructionBase):
    """no registered box: never obstructed"""
    nboxes = 0

    def post(self, g, res, args, kwargs):
        g.holds('no boxes => free', not res if not g.symbolic else T.SB_lift(not res))


@register
class Obstruction1(_ObstructionBase):
    """one box given by two opposite corners in any order, arbitrary segment: obstructed <=> the closed
    segment meets the closed box (both directions, every exit of the separating-axis test)"""
    nboxes = 1
    shape_bound = 'one box (exact in all values)'


@register
class Obstruction2(_ObstructionBase):
    """two boxes: obstructed <=> the segment meets box 0 or box 1 (the loop over the obstruction list carries no
    state from one box to the next; executed natively for a list of two symbolic boxes)"""
    nboxes = 2
    tier = 'thorough'
    shape_bound = 'list of 2 boxes (all values); lists of other lengths are covered by Obstruction0/1 only'
    timeout = 60.0


@register
class AddObstruction_c(Contract):
    """addObstruction stores the two corners it is given, in order"""
    prop = 'C15'
    target = PP + ':RRTStar.addObstruction'

    def setup(self, g):
        pp = g.module(PP)
        tmm = g.module(TM)
        self.Lc = g.reals('L', 3)
        self.Rc = g.reals('R', 3)
        self.planner = pp.RRTStar(tmm.tm())
        return (self.planner, self.Lc, self.Rc), {}

    def post(self, g, res, args, kwargs):
        ob = self.planner.obstructions
        g.holds('one more obstruction', len(ob) == 1)
        g.eq('first corner stored', S.arr([ob[-1][0][k] for k in range(3)]), S.arr(self.Lc))
        g.eq('second corner stored', S.arr([ob[-1][1][k] for k in range(3)]), S.arr(self.Rc))
