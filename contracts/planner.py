"""Contracts for the RRT* planner (properties C15, C16)."""
import numpy as _np
from pyvc.contract import Contract, register
from pyvc import spec as S
from pyvc import terms as T

PP = 'basic_robotics.path_planning.pathplanner'
TM = 'basic_robotics.general.faser_transform'


def _absx(x):
    return abs(x)


def box_of(Lc, Rc):
    """closed axis-aligned box spanned by two opposite corners given in any order:
    lo = mid - |R - L|/2, hi = mid + |R - L|/2   ( = min / max of the corners)"""
    lo, hi = [], []
    for k in range(3):
        mid = (Lc[k] + Rc[k]) / 2
        half = _absx(Rc[k] - Lc[k]) / 2
        lo.append(mid - half)
        hi.append(mid + half)
    return lo, hi


def inside_at(p1, p2, lo, hi, t):
    """the conjunction  t in [0,1]  and  lo <= p1 + t (p2 - p1) <= hi"""
    cs = [0 <= t, t <= 1]
    for k in range(3):
        x = p1[k] + t * (p2[k] - p1[k])
        cs.append(lo[k] <= x)
        cs.append(x <= hi[k])
    return cs


class _ObstructionBase(Contract):
    prop = 'C15'
    target = PP + ':RRTStar.obstruction'
    under_contract = (PP + ':RRTStar.addObstruction', PP + ':PathNode.getPosition', TM + ':tm.__getitem__')
    nboxes = 1
    max_paths = 4000
    timeout = 30.0
    n_samples = 60

    def setup(self, g):
        pp = g.module(PP)
        tmm = g.module(TM)
        self.p1 = g.reals('a', 3, scale=3.0)
        self.p2 = g.reals('b', 3, scale=3.0)
        self.boxes = []
        planner = pp.RRTStar(tmm.tm())
        for i in range(self.nboxes):
            Lc = g.reals('L%d_' % i, 3, scale=2.0)
            Rc = g.reals('R%d_' % i, 3, scale=2.0)
            self.boxes.append((Lc, Rc))
            planner.addObstruction(Lc, Rc)
        z = 0 * self.p1[0]
        n1 = pp.PathNode(tmm.tm([self.p1[0], self.p1[1], self.p1[2], z, z, z]))
        n2 = pp.PathNode(tmm.tm([self.p2[0], self.p2[1], self.p2[2], z, z, z]))
        self.planner = planner
        self.nodes = (n1, n2)
        if g.symbolic:
            self.t = T.SR.var('t_any')     # an arbitrary parameter: obligations about it hold for all t
        return (planner, n1, n2), {}

    def post(self, g, res, args, kwargs):
        p1, p2 = self.p1, self.p2
        # the query must not move its operands (nodes and boxes are reused by later queries)
        for nm, nd, pp in (('first', self.nodes[0], p1), ('second', self.nodes[1], p2)):
            g.eq('position of the %s node is not modified by the query' % nm,
                 S.arr([nd.getPosition()[k] for k in range(3)]), S.arr(pp))
        for i, (Lc, Rc) in enumerate(self.boxes):
            ob = self.planner.obstructions[i]
            g.eq('corners of box %d are not modified by the query' % i,
                 S.arr([ob[0][k] for k in range(3)] + [ob[1][k] for k in range(3)]), S.arr(list(Lc) + list(Rc)))
        if g.mode == 'concrete':
            # exact slab test in floats (oracle independent of the code under test)
            want = any(self._slab(p1, p2, *box_of(Lc, Rc)) for Lc, Rc in self.boxes)
            g.holds('obstruction(n1, n2) == exists box: segment meets box', bool(res) == want)
            return
        if not res:
            # soundness of "free": for an arbitrary t in [0, 1] the point is outside every box
            t = self.t
            for i, (Lc, Rc) in enumerate(self.boxes):
                lo, hi = box_of(Lc, Rc)
                g.holds('free => no point of the segment lies in box %d' % i,
                        T.snot(T.sand(*inside_at(p1, p2, lo, hi, t))))
            return
        # completeness of "obstructed": a witness parameter exists.  Sign split of the half vector, candidates
        # s* in {-1, entry parameters of the three slabs} in the code-independent midpoint parametrisation
        m = [(p1[k] + p2[k]) / 2 for k in range(3)]
        h = [(p1[k] - p2[k]) / 2 for k in range(3)]      # p(s) = m + s h, s in [-1, 1];  t = (1 - s)/2
        sg = []
        for k in range(3):
            if h[k] > 0:
                sg.append(1)
            elif h[k] < 0:
                sg.append(-1)
            else:
                sg.append(0)
        alts = []
        for i, (Lc, Rc) in enumerate(self.boxes):
            lo, hi = box_of(Lc, Rc)
            cands = [-1 + 0 * h[0]]
            for k in range(3):
                if sg[k] > 0:
                    cands.append((lo[k] - m[k]) / h[k])
                elif sg[k] < 0:
                    cands.append((hi[k] - m[k]) / h[k])
            for s in cands:
                t = (1 - s) / 2
                alts.append(T.sand(*inside_at(p1, p2, lo, hi, t)))
        g.holds('obstructed => some point of the segment lies in some box (ghost witnesses)', T.sor(*alts))

    @staticmethod
    def _slab(p1, p2, lo, hi):
        t0, t1 = 0.0, 1.0
        for k in range(3):
            d = p2[k] - p1[k]
            if d == 0:
                if p1[k] < lo[k] or p1[k] > hi[k]:
                    return False
            else:
                a, b = (lo[k] - p1[k]) / d, (hi[k] - p1[k]) / d
                if a > b:
                    a, b = b, a
                t0, t1 = max(t0, a), min(t1, b)
                if t0 > t1:
                    return False
        return True


@register
class Obstruction0(_ObstructionBase):
    """no registered box: never obstructed"""
    nboxes = 0

    def post(self, g, res, args, kwargs):
        g.holds('no boxes => free', not res if not g.symbolic else T.SB_lift(not res))


@register
class Obstruction1(_ObstructionBase):
    """one box given by two opposite corners in any order, arbitrary segment: obstructed <=> the closed
    segment meets the closed box (both directions, every exit of the separating-axis test)"""
    nboxes = 1
    shape_bound = 'one box (exact in all values)'


@register
class Obstruction2(_ObstructionBase):
    """two boxes: obstructed <=> the segment meets box 0 or box 1 (the loop over the obstruction list carries no
    state from one box to the next; executed natively for a list of two symbolic boxes)"""
    nboxes = 2
    tier = 'thorough'
    shape_bound = 'list of 2 boxes (all values); lists of other lengths are covered by Obstruction0/1 only'
    timeout = 60.0


@register
class AddObstruction_c(Contract):
    """addObstruction stores the two corners it is given, in order"""
    prop = 'C15'
    target = PP + ':RRTStar.addObstruction'

    def setup(self, g):
        pp = g.module(PP)
        tmm = g.module(TM)
        self.Lc = g.reals('L', 3)
        self.Rc = g.reals('R', 3)
        self.planner = pp.RRTStar(tmm.tm())
        return (self.planner, self.Lc, self.Rc), {}

    def post(self, g, res, args, kwargs):
        ob = self.planner.obstructions
        g.holds('one more obstruction', len(ob) == 1)
        g.eq('first corner stored', S.arr([ob[-1][0][k] for k in range(3)]), S.arr(self.Lc))
        g.eq('second corner stored', S.arr([ob[-1][1][k] for k in range(3)]), S.arr(self.Rc))


# ===================================================================================================
# C16 -- RRT* builds a collision-free, cost-consistent tree and returns a path in it
# ===================================================================================================
from pyvc import loops, loader, npx   # noqa: E402


class _Tree(Contract):
    """generalGenerateTree with caller-supplied callbacks (A7: deterministic, fresh parentless node per sample) and
    the R-tree abstracted by A6 (`nearest(q, k)` returns between 1 and k inserted nodes -- which ones is chosen
    nondeterministically, every choice is explored).  The rejection loop is cut with the invariant rule, so the
    number of rejected samples is unbounded; the iteration budget is concrete (shape bound)."""
    prop = 'C16'
    target = PP + ':RRTStar.generalGenerateTree'
    under_contract = (PP + ':RRTStar.findPathGeneral', PP + ':R6Tree.place', PP + ':R6Tree.nearestNeighbors',
                      PP + ':PathNode.setParent')
    budget = 1
    knn = 2
    replayable = False      # callbacks and the R-tree are abstract: there is no native counterpart of a counter-model
    max_paths = 3000
    timeout = 20.0

    @property
    def shape_bound(self):
        return 'iteration budget %d, nearest-neighbour limit %d' % (self.budget, self.knn)

    def prepare(self):
        def inv(L):
            me = L['self']
            st = me.__dict__['_pyvc_state']
            d = L['dist']
            out = [('nearest is a non-empty list of inserted nodes', T.TRUE if (len(L['nearest']) >= 1 and
                    all(any(it.object is n for n in st['inserted']) for it in L['nearest'])) else T.FALSE),
                   ('dist is the distance of the sample to its nearest node',
                    T.eq(d, st['dist'](L['new_node'], L['nearest'][0].object)) if len(L['nearest']) >= 1 else T.FALSE),
                   ('the sample is a fresh parentless node', T.TRUE if (L['new_node'].getParent() is None and
                    all(L['new_node'] is not n for n in st['inserted'])) else T.FALSE)]
            return out

        def havoc(nm, old, c):
            st = T.ctx().contract_state
            if nm == 'new_node':
                return st['gen']()
            if nm == 'nearest':
                return st['nearest1']()
            if nm == 'dist':
                return NotImplemented
            return NotImplemented
        loops.register(PP, 'RRTStar.generalGenerateTree', 0, loops.LoopSpec(inv, havoc, name='rejection sampling'))

    def setup(self, g):
        g.real('unused', lo=0.0, hi=1.0)
        return (), {}

    def run(self, g, fn, args, kwargs):
        pp = g.module(PP)
        tmm = g.module(TM)
        ctx = g.ctx if g.symbolic else None
        if not g.symbolic:
            raise NotImplementedError('replay of C16 contracts is not implemented')
        planner = pp.RRTStar(tmm.tm())
        planner.iterations = self.budget
        planner.nearest_neighbors_limit = self.knn
        planner.minimum_distance = g.ctx.fresh_real('dmin')
        planner.maximum_distance = g.ctx.fresh_real('dmax')
        root = planner.r6_tree_graph.idx.items[0][2]
        st = dict(inserted=[root], gen_count=[0], samples=[], dist_calls=[], coll={}, examined={})

        def gen():
            st['gen_count'][0] += 1
            n = pp.PathNode(tmm.tm())
            n.__dict__['_pyvc_id'] = st['gen_count'][0]
            st['samples'].append(n)
            return n

        def ident(n):
            return n.__dict__.get('_pyvc_id', 0)

        def dist_nodes(a, b):
            return T.uf('dist', T.SR.const(min(ident(a), ident(b))), T.SR.const(max(ident(a), ident(b))))

        pos_owner = {}

        def owner(pos):
            for n in st['inserted'] + st['samples']:
                if n.getPosition() is pos:
                    return n
            raise KeyError('position of an unknown node')

        def distance(p1, p2):
            d = dist_nodes(owner(p1), owner(p2))
            g.ctx.assume(T.le(0, d), tag='A7: distances are non-negative')
            return d

        def collision(a, b):
            key = (min(ident(a), ident(b)), max(ident(a), ident(b)))
            if key not in st['coll']:
                st['coll'][key] = T.bvar('collides_%d_%d_%d' % (key[0], key[1], g.ctx.fresh_id('coll')))
            return st['coll'][key]

        def choose_subset(k):
            """A6: any non-empty list of at most k distinct inserted nodes, in any order (explored exhaustively)"""
            pool = list(st['inserted'])
            out = []
            for round_ in range(min(k, len(pool))):
                remaining = [n for n in pool if all(n is not m for m in out)]
                picked = None
                for idx, n in enumerate(remaining):
                    last = idx == len(remaining) - 1
                    if last and round_ == 0:
                        picked = n
                        break
                    if bool(T.bvar('rtree_pick_%d' % g.ctx.fresh_id('pick'))):
                        picked = n
                        break
                if picked is None:
                    break
                out.append(picked)
                if round_ + 1 < min(k, len(pool)) and not bool(T.bvar('rtree_more_%d' % g.ctx.fresh_id('more'))):
                    break
            return [pp.index.Item(n) if hasattr(pp.index, 'Item') else n for n in out]

        st['gen'] = gen
        st['dist'] = dist_nodes
        st['nearest1'] = lambda: choose_subset(1)
        g.ctx.contract_state = st
        planner.__dict__['_pyvc_state'] = st

        def hook(index, coords, num, objects):
            if num > 1 and getattr(self, 'full_knn', False):
                # restricted instance of A6: the k nearest are ALL inserted nodes (at most k), in insertion order; since the
                # distances are uninterpreted symbols, fixing the order loses no generality for full neighbour lists
                items = [pp.index.Item(n) if hasattr(pp.index, 'Item') else n for n in st['inserted'][:num]]
            else:
                items = choose_subset(num)
            if num > 1:
                st['examined'][len(st['inserted'])] = [it.object for it in items]
            return items
        g.ctx.rtree_nearest_hook = hook
        # keep the ghost set in step with the real insertions
        real_place = planner.r6_tree_graph.place

        def place(node):
            real_place(node)
            st['inserted'].append(node)
        planner.r6_tree_graph.place = place
        planner.generalGenerateTree(gen, distance, collision)
        return planner, st, root, dist_nodes, collision

    def post(self, g, out, args, kwargs):
        planner, st, root, dist_nodes, collision = out
        nodes = st['inserted']
        g.holds('the tree holds one node per iteration plus the root', len(nodes) == self.budget + 1 and
                planner.r6_tree_graph.getCount() == self.budget + 1)
        g.holds('the root has no parent', root.getParent() is None)
        for k, n in enumerate(nodes[1:], start=1):
            p = n.getParent()
            rank_ok = p is not None and any(p is m for m in nodes[:k])
            g.holds('node %d: its parent was inserted earlier (rooted, acyclic)' % k, rank_ok)
            if not rank_ok:
                continue
            g.eq('node %d: cost = parent cost + distance to parent' % k, n.getCost(), p.getCost() + dist_nodes(n, p))
            g.holds('node %d: the parent link is collision-free' % k, T.snot(T.SB_lift(collision(n, p))))
            ex = st['examined'].get(k, [])
            for c in ex:
                better = T.sand(T.lt(dist_nodes(n, c) + c.getCost(), n.getCost()), T.snot(T.SB_lift(collision(n, c))))
                g.holds('node %d: no examined collision-free candidate is cheaper than its parent' % k, T.snot(better))


register(type('Tree_budget1', (_Tree,), dict(budget=1, knn=2)))
register(type('Tree_budget2', (_Tree,), dict(budget=2, knn=2)))
register(type('Tree_budget3_full_neighbour_lists', (_Tree,), dict(budget=3, knn=3, full_knn=True, max_paths=20000)))
