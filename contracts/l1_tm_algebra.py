"""L1 contracts: transform algebra is SE(3), constructor forms agree (property C04)."""
import numpy as _np
from pyvc.contract import Contract, register
from pyvc import spec as S
from pyvc import terms as T
from pyvc import stubs, npx
from .l1_tm import TMM, BH, MR, mk_tm
from .l2_screw_wrench import frame

ZONE = ' [a rotation vector of norm below 1e-6 went through the exponential cut-off]'


def zone(g):
    if g.symbolic and stubs.ghost_of(g.ctx).cutoff_hits:
        return ZONE
    return ''


class A(Contract):
    prop = 'C04'
    tol = 5e-6
    max_paths = 300
    body_exp = False

    def prepare(self):
        stubs.install()

    def setup(self, g):
        return (), {}

    def modes(self, g):
        if g.symbolic:
            stubs.ghost_of(g.ctx).body_exp = self.body_exp


@register
class Alg_matmul_inv_assoc(A):
    """a @ b multiplies the homogeneous matrices, inv() is the group inverse, composition is associative"""
    target = TMM + ':tm.__matmul__'
    under_contract = (TMM + ':tm.inv', MR + ':TransInv')

    def run(self, g, fn, args, kwargs):
        a, Ma = frame(g, 'a')
        b, Mb = frame(g, 'b')
        c, Mc = frame(g, 'c')
        return dict(ab=(a @ b).gTM(), ab_c=((a @ b) @ c).gTM(), a_bc=(a @ (b @ c)).gTM(), ai=a.inv().gTM(),
                    a_ai=(a @ a.inv()).gTM()), Ma, Mb, Mc

    def post(self, g, out, args, kwargs):
        o, Ma, Mb, Mc = out
        g.eq('(a @ b).TM = a.TM b.TM', o['ab'], S.mm(Ma, Mb))
        g.eq('(a @ b) @ c = a @ (b @ c)', o['ab_c'], o['a_bc'])
        g.eq('(a @ b) @ c = a.TM b.TM c.TM', o['ab_c'], S.mm(Ma, Mb, Mc))
        g.eq('inv().TM = closed-form SE(3) inverse', o['ai'], S.inv_SE3(Ma))
        g.eq('a @ a.inv() = identity', o['a_ai'], S.eye(4, Ma))


class _Conv(A):
    under_contract = (BH + ':globalToLocal', MR + ':LocalToGlobal', MR + ':GlobalToLocal')
    which = 'l2g'

    def run(self, g, fn, args, kwargs):
        bh = g.module(BH)
        r, Mr = frame(g, 'r')
        x, Mx = frame(g, 'x')
        if self.which == 'l2g':
            res = bh.localToGlobal(r, x)
        elif self.which == 'g2l':
            res = bh.globalToLocal(r, x)
        else:
            res = bh.globalToLocal(r, bh.localToGlobal(r, x))
        return res.gTM(), Mr, Mx, zone(g)

    def post(self, g, out, args, kwargs):
        M, Mr, Mx, z = out
        if self.which == 'l2g':
            g.eq('localToGlobal(ref, rel).TM = ref.TM rel.TM' + z, M, S.mm(Mr, Mx))
        elif self.which == 'g2l':
            g.eq('globalToLocal(ref, x).TM = inv(ref.TM) x.TM' + z, M, S.mm(S.inv_SE3(Mr), Mx))
        else:
            g.eq('globalToLocal(ref, localToGlobal(ref, rel)) = rel' + z, M, Mx)


register(type('Alg_localToGlobal', (_Conv,), dict(which='l2g', target=BH + ':localToGlobal', __doc__='localToGlobal(ref, rel) = ref * rel')))
register(type('Alg_globalToLocal', (_Conv,), dict(which='g2l', target=BH + ':globalToLocal', __doc__='globalToLocal(ref, x) = inv(ref) * x')))
register(type('Alg_conversions_inverse', (_Conv,), dict(which='inv', target=BH + ':globalToLocal', tier='thorough',
                                                       __doc__='globalToLocal(ref, localToGlobal(ref, rel)) = rel')))


@register
class Ctor_forms_rotation_vector(A):
    """one pose given as (position p, rotation vector w): list, (6,) array, (6,1) array, nested [p, w] pair, copy and
    one-element-array forms and the explicit matrix [[ExpLib3(w), p],[0,1]] all give the same matrix"""
    target = TMM + ':tm.__init__'
    body_exp = True

    def run(self, g, fn, args, kwargs):
        self.modes(g)
        tm = g.module(TMM).tm
        x = g.reals('x', 6, scale=1.5)
        xl = [x[0], x[1], x[2], x[3], x[4], x[5]]
        t_list = tm(xl)
        t_arr = tm(g.arr(x))
        t_col = tm(g.arr(x).reshape((6, 1)))
        t_pair = tm([[x[0], x[1], x[2]], [x[3], x[4], x[5]]])
        t_copy = tm(t_list)
        import numpy
        box = numpy.empty((1,), dtype=object)
        box[0] = t_list
        t_box = tm(box)
        M = S.RpT(S.ExpLib3(x[3:6]), x[0:3])
        t_mat = tm(M)
        return dict(list=t_list.gTM(), arr=t_arr.gTM(), col=t_col.gTM(), pair=t_pair.gTM(), copy=t_copy.gTM(), box=t_box.gTM(),
                    mat=t_mat.gTM()), M

    def post(self, g, out, args, kwargs):
        o, M = out
        g.eq('tm(list of 6).TM = [[ExpLib3(w), p],[0,1]]', o['list'], M)
        for k in ('arr', 'col', 'pair', 'copy', 'box', 'mat'):
            g.eq('form %s gives the same matrix as the 6-list' % k, o[k], o['list'])


@register
class Ctor_form_quaternion(A):
    """the pose (p, rotation vector w, 1e-6 <= |w| <= pi - 1e-3) given as position + quaternion
    (sin(|w|/2) w/|w|, cos(|w|/2)) equals the pose given as a six-vector"""
    target = TMM + ':tm.from7DOF'
    under_contract = (TMM + ':tm.setQuat',)
    body_exp = True

    def run(self, g, fn, args, kwargs):
        self.modes(g)
        tm = g.module(TMM).tm
        p = g.reals('p', 3, scale=2.0)
        w = g.reals('w', 3, scale=1.2)
        th = S.norm(w)
        g.require(th >= 1e-6)
        g.require(th <= (S.pi_of(w) - 1e-3) if g.symbolic else 3.1405)
        sh, ch = S.sin(th / 2), S.cos(th / 2)
        q = [sh * w[0] / th, sh * w[1] / th, sh * w[2] / th, ch]
        t_q = tm([p[0], p[1], p[2], q[0], q[1], q[2], q[3]])
        t_w = tm([p[0], p[1], p[2], w[0], w[1], w[2]])
        return t_q.gTM(), t_w.gTM()

    def post(self, g, out, args, kwargs):
        Mq, Mw = out
        g.eq('quaternion form = rotation-vector form', Mq, Mw)


@register
class Ctor_form_rpy(A):
    """tm([p, r, pitch, yaw], rpy=True) has rotation Rx(r) Ry(pitch) Rz(yaw) (the documented order) and position p"""
    target = TMM + ':tm.from6DOF'
    body_exp = True
    max_paths = 600
    timeout = 40.0
    lo, hi = 0.01, 3.0
    shape_bound = 'angles in [0.01, 3] (quick); all sign combinations in [-3, 3] in the thorough tier'

    def run(self, g, fn, args, kwargs):
        self.modes(g)
        tm = g.module(TMM).tm
        p = g.reals('p', 3, scale=2.0)
        a = g.reals('r', 3, lo=self.lo, hi=self.hi)
        if g.symbolic and self.lo < 0:
            for ai in a:
                bool(ai >= 0)          # case split on the signs: |r| is r or -r on each path
        t = tm([p[0], p[1], p[2], a[0], a[1], a[2]], True)
        return t.gTM(), p, a, zone(g)

    def post(self, g, out, args, kwargs):
        M, p, a, z = out
        want = S.RpT(S.mm(S.Rx(a[0]), S.Ry(a[1]), S.Rz(a[2])), p)
        if not z:
            g.eq('rpy form: rotation = Rx Ry Rz (5e-6)', M[0:3, 0:3], want[0:3, 0:3], tol=5e-6)
        # (paths on which the composed rotation itself is within the 1e-6 cut-off return the identity; the 5e-6
        #  closeness of Rx Ry Rz to the identity on those paths is not decided here)
        g.eq('rpy form: position kept, last row 0 0 0 1', M[:, 3], want[:, 3])
        g.eq('rpy form: last row', M[3, :], want[3, :])


register(type('Ctor_form_rpy_signed', (Ctor_form_rpy,), dict(lo=-3.0, hi=3.0, tier='thorough',
                                                           __doc__='rpy form for angles of either sign in [-3, 3]')))


@register
class Quat_roundtrip(A):
    """reading then setting the quaternion is the identity"""
    target = TMM + ':tm.setQuat'
    under_contract = (TMM + ':tm.getQuat',)

    def run(self, g, fn, args, kwargs):
        t, M = frame(g, 't')
        q = t.getQuat()
        t.setQuat(q)
        return t.gTM(), M

    def post(self, g, out, args, kwargs):
        M2, M = out
        g.eq('setQuat(getQuat()) leaves the matrix unchanged', M2, M)
