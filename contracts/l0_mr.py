"""L0 contracts: rigid-motion primitives of modern_high_performance.py (property C01).

Postconditions are taken from the property statement and written against pyvc.spec (Rodrigues'
formula, group axioms) -- none of the library's own code is used as an oracle.
"""
import numpy as _np
from pyvc.contract import Contract, register
from pyvc import spec as S
from pyvc import terms as T

MR = 'basic_robotics.modern_robotics_numba.modern_high_performance'


def _mr(g):
    return g.module(MR)


def se3_from(g, qname='q', pname='p', pscale=10.0):
    """an arbitrary element of SE(3): rotation of a unit quaternion (M2), arbitrary translation"""
    q = g.unit(qname, 4)
    p = g.reals(pname, 3, scale=pscale)
    return S.RpT(S.Rq(q), p), q, p


# --------------------------------------------------------------------------------------------------
# hat / vee

@register
class HatVee3(Contract):
    """so3ToVec(VecToso3(w)) = w ; VecToso3(w) is skew with the spec layout"""
    prop = 'C01'
    target = MR + ':VecToso3'
    under_contract = (MR + ':so3ToVec',)

    def setup(self, g):
        self.w = g.reals('w', 3)
        return (g.arr(self.w),), {}

    def post(self, g, res, args, kwargs):
        g.eq('VecToso3(w) = hat3(w)', res, S.hat3(self.w))
        g.eq('VecToso3(w) skew', res + res.T, 0 * res)
        g.eq('so3ToVec(VecToso3(w)) = w', _mr(g).so3ToVec(res), g.arr(self.w))


@register
class VeeHat3(Contract):
    """VecToso3(so3ToVec(S)) = S for every skew-symmetric S"""
    prop = 'C01'
    target = MR + ':so3ToVec'
    under_contract = (MR + ':VecToso3',)

    def setup(self, g):
        a, b, c = g.reals('s', 3)
        z = 0 * a
        self.Smat = g.arr([[z, -c, b], [c, z, -a], [-b, a, z]])
        return (self.Smat,), {}

    def post(self, g, res, args, kwargs):
        g.eq('so3ToVec(S) = vee3(S)', res, S.vee3(self.Smat))
        g.eq('VecToso3(so3ToVec(S)) = S', _mr(g).VecToso3(res), self.Smat)


@register
class HatVee6(Contract):
    """se3ToVec(VecTose3(V)) = V ; VecTose3(V) has the spec layout (last row zero)"""
    prop = 'C01'
    target = MR + ':VecTose3'
    under_contract = (MR + ':se3ToVec',)

    def setup(self, g):
        self.V = g.reals('V', 6)
        return (g.arr(self.V),), {}

    def post(self, g, res, args, kwargs):
        g.eq('VecTose3(V) = hat6(V)', res, S.hat6(self.V))
        g.eq('se3ToVec(VecTose3(V)) = V', _mr(g).se3ToVec(res), g.arr(self.V))


@register
class VeeHat6(Contract):
    """VecTose3(se3ToVec(X)) = X for every X in se(3)"""
    prop = 'C01'
    target = MR + ':se3ToVec'
    under_contract = (MR + ':VecTose3',)

    def setup(self, g):
        self.V = g.reals('V', 6)
        self.X = S.hat6(self.V)
        return (self.X,), {}

    def post(self, g, res, args, kwargs):
        g.eq('se3ToVec(X) = vee6(X)', res, g.arr(self.V))
        g.eq('VecTose3(se3ToVec(X)) = X', _mr(g).VecTose3(res), self.X)


# --------------------------------------------------------------------------------------------------
# exponentials

@register
class MatrixExp3_c(Contract):
    """MatrixExp3(hat w): the documented exponential (identity inside the 1e-6 cut-off, Rodrigues outside),
    a proper rotation (R^T R = I, det R = 1) on every path, and within 5e-6 of Rodrigues' formula even
    inside the cut-off (the tolerance the property states)."""
    prop = ('C01', 'C03', 'C04', 'C12', 'C18', 'C17')   # callee contracts the upper layers are verified against; every branch of the kernel is executed with NumPy's index checks (C17)
    target = MR + ':MatrixExp3'
    under_contract = (MR + ':NearZero', MR + ':Norm', MR + ':AxisAng3', MR + ':Normalize', MR + ':so3ToVec')

    def setup(self, g):
        self.w = g.reals('w', 3, scale=2.0)
        return (S.hat3(self.w),), {}

    def post(self, g, R, args, kwargs):
        w = self.w
        g.eq('MatrixExp3 = ExpLib3(w)', R, S.ExpLib3(w))
        g.eq('R^T R = I', S.mm(R.T, R), S.eye(3, R))
        g.eq('det R = 1', S.det3(R), 1 + 0 * w[0])
        th = S.norm(w)
        if th < S.CUTOFF:
            # inside the cut-off the result is I; the exact exponential differs by at most ~1e-6
            if th > 0:
                g.eq('|MatrixExp3 - Rod(w)| <= 5e-6 inside the cut-off', R, S.Rod(w), tol=5e-6)


@register
class MatrixExp6_c(Contract):
    """MatrixExp6(hat6 V): documented exponential; result in SE(3) (rotation block proper, last row 0 0 0 1)"""
    prop = 'C01'
    target = MR + ':MatrixExp6'
    under_contract = (MR + ':MatrixExp3', MR + ':NearZero', MR + ':Norm', MR + ':AxisAng3', MR + ':so3ToVec')

    def setup(self, g):
        self.V = g.reals('V', 6, scale=2.0)
        return (S.hat6(self.V),), {}

    def post(self, g, Tm, args, kwargs):
        V = self.V
        g.eq('MatrixExp6 = Exp6(V)', Tm, S.Exp6(V))
        R = Tm[0:3, 0:3]
        g.eq('rotation block orthonormal', S.mm(R.T, R), S.eye(3, R))
        g.eq('det = 1', S.det3(R), 1 + 0 * V[0])
        g.eq('last row 0 0 0 1', Tm[3, :], g.arr([0, 0, 0, 1]))


# --------------------------------------------------------------------------------------------------
# closed-form inverse and adjoint

@register
class TransInv_c(Contract):
    """TransInv(T) = [[R^T, -R^T p],[0,1]]; inv(T) T = T inv(T) = I for every T in SE(3)"""
    prop = ('C01', 'C03', 'C04', 'C12', 'C18', 'C17')   # callee contracts the upper layers are verified against; every branch of the kernel is executed with NumPy's index checks (C17)
    target = MR + ':TransInv'
    under_contract = (MR + ':TransToRp',)

    def setup(self, g):
        self.T, q, p = se3_from(g)
        return (self.T,), {}

    def post(self, g, Ti, args, kwargs):
        Tm = self.T
        g.eq('TransInv = inv_SE3', Ti, S.inv_SE3(Tm))
        g.eq('inv(T) T = I', S.mm(Ti, Tm), S.eye(4, Tm))
        g.eq('T inv(T) = I', S.mm(Tm, Ti), S.eye(4, Tm))


@register
class Adjoint_c(Contract):
    """Adjoint(T) = [[R,0],[[p]R,R]] ; Ad(T1 T2) = Ad(T1) Ad(T2) ; Ad(inv T) Ad(T) = I ; T [V] inv(T) = [Ad(T) V]"""
    prop = ('C01', 'C03', 'C04', 'C12', 'C18', 'C17')   # callee contracts the upper layers are verified against; every branch of the kernel is executed with NumPy's index checks (C17)
    target = MR + ':Adjoint'
    under_contract = (MR + ':TransToRp', MR + ':VecToso3', MR + ':TransInv', MR + ':VecTose3')

    def setup(self, g):
        self.T1, _, _ = se3_from(g, 'q', 'p')
        self.T2, _, _ = se3_from(g, 'r', 's')
        self.V = g.reals('V', 6)
        return (self.T1,), {}

    def post(self, g, A1, args, kwargs):
        mr = _mr(g)
        T1, T2, V = self.T1, self.T2, g.arr(self.V)
        g.eq('Adjoint = Ad', A1, S.Ad(T1))
        A2 = mr.Adjoint(T2)
        A12 = mr.Adjoint(S.mm(T1, T2))
        g.eq('Ad(T1 T2) = Ad(T1) Ad(T2)', A12, S.mm(A1, A2))
        Ai = mr.Adjoint(mr.TransInv(T1))
        g.eq('Ad(inv T) Ad(T) = I', S.mm(Ai, A1), S.eye(6, A1))
        g.eq('Ad(T) Ad(inv T) = I', S.mm(A1, Ai), S.eye(6, A1))
        lhs = S.mm(T1, mr.VecTose3(V), mr.TransInv(T1))
        g.eq('T [V] inv(T) = [Ad(T) V]', lhs, mr.VecTose3(S.mm(A1, V)))


@register
class ad_c(Contract):
    """ad(V1) V2 = vee([V1][V2] - [V2][V1])"""
    prop = 'C01'
    target = MR + ':ad'
    under_contract = (MR + ':VecToso3', MR + ':VecTose3', MR + ':se3ToVec')

    def setup(self, g):
        self.V1 = g.reals('V', 6)
        self.V2 = g.reals('U', 6)
        return (g.arr(self.V1),), {}

    def post(self, g, a, args, kwargs):
        mr = _mr(g)
        V1, V2 = g.arr(self.V1), g.arr(self.V2)
        g.eq('ad = spec ad', a, S.ad(self.V1))
        X1, X2 = mr.VecTose3(V1), mr.VecTose3(V2)
        g.eq('ad(V1) V2 = vee([V1,V2])', S.mm(a, V2), mr.se3ToVec(S.mm(X1, X2) - S.mm(X2, X1)))


@register
class RpTrans_c(Contract):
    """RpToTrans / TransToRp are mutually inverse and copy"""
    prop = 'C01'
    target = MR + ':RpToTrans'
    under_contract = (MR + ':TransToRp',)

    def setup(self, g):
        self.R = g.arr([g.reals('R%d' % i, 3) for i in range(3)])
        self.p = g.arr(g.reals('p', 3))
        return (self.R, self.p), {}

    def post(self, g, Tm, args, kwargs):
        g.eq('RpToTrans = [[R,p],[0,1]]', Tm, S.RpT(self.R, self.p))
        R2, p2 = _mr(g).TransToRp(Tm)
        g.eq('TransToRp(RpToTrans(R,p)) R', R2, self.R)
        g.eq('TransToRp(RpToTrans(R,p)) p', p2, self.p)
