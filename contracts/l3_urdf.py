"""L3 contracts: the URDF loader (property C13).

The loader is executed on a *symbolic document*: a real XML text (parsed by the real xml.etree parser) whose numeric
attribute values are tokens '@name' bound to symbolic reals, so one run covers every value of the origins, axes and
limits of a given tree shape.  The tree shapes (how many moving / fixed joints, where, which optional elements are
omitted, with or without a 'world' link) are enumerated.

Modularity: the loader ends by calling Arm(tm(), screw_list, home, joint_homes, joint_axes) and the property setters.
In the symbolic run `Arm` is replaced by its contract (Arm_init / Arm_FK, property C05: the arm stores the screws and the
home pose it is given, and FK(theta) = PoE(home, screws, theta)); the obligations here are on the ARGUMENTS the loader
hands over.  The step from those arguments to the file's own semantics,
    PoE(M, S, theta) = prod_i [ O_i Rot(a_i, theta_i) ] . (trailing fixed origins),
is the telescoping use of Lemma_PoE_equivariance (Exp6(Ad(C) S theta) = C Exp6(S theta) inv(C), any C, S, theta) with
S = (a_i, 0) and C the cumulative frame of joint i, plus Lemma_URDF_joint_factor below.
In the native replay the real Arm is built and FK is compared end to end.
"""
import os
import shutil
import tempfile
import numpy as _np
from pyvc.contract import Contract, register
from pyvc import spec as S
from pyvc import terms as T
from pyvc import stubs, npx, proxies
from .l1_tm import TMM

ARM = 'basic_robotics.kinematics.arm_model'
ZONE = ' [a rotation vector of norm below 1e-6 went through the exponential cut-off]'


def zone(g):
    if g.symbolic and stubs.ghost_of(g.ctx).cutoff_hits:
        return ZONE
    return ''


class Val:
    """a numeric attribute value: symbolic real (token) or a fixed numeral"""

    def __init__(self, g, name=None, lo=None, hi=None, const=None):
        if const is not None:
            self.v = const
            self.text = repr(float(const))
            self.sym = False
        else:
            self.v = g.real(name, lo=lo, hi=hi)
            self.sym = True
            if g.symbolic:
                self.text = '@' + name
                npx.SymTok.table[self.text] = self.v
            else:
                self.text = repr(float(self.v))


def origin_spec(xyz, rpy, like):
    """URDF origin: translation xyz, then fixed-axis roll-pitch-yaw = Rz(yaw) Ry(pitch) Rx(roll)"""
    R = S.mm(S.Rz(rpy[2]), S.Ry(rpy[1]), S.Rx(rpy[0]))
    return S.RpT(R, S.arr(list(xyz)))


def rot_axis(a, th):
    K = S.hat3(a)
    I = S.eye(3, K)
    return I + S.sin(th) * K + (1 - S.cos(th)) * S.mm(K, K)


def angle(g, name):
    """a roll / pitch / yaw value in [0.05, 1.4] (away from the exponential's cut-off zone) with the elementary bounds on
    its sine and cosine that make 'this rotation is not within 1e-6 of the identity' a polynomial fact"""
    v = Val(g, name, lo=0.05, hi=1.4)
    if g.symbolic:
        note = 'sin / cos of an angle in [0.05, 1.4] lie in [0.0499, 0.9855] / [0.1699, 0.9988] (monotonicity on [0, pi/2])'
        g.assume_fact(T.sand(T.le(0.0499, S.sin(v.v)), T.le(S.sin(v.v), 0.9855), T.le(0.1699, S.cos(v.v)),
                             T.le(S.cos(v.v), 0.9988)), note)
    return v


class Joint:
    def __init__(self, kind, xyz='sym', rpy='sym', axis='z', omit=()):
        self.kind, self.xyz, self.rpy, self.axis, self.omit = kind, xyz, rpy, axis, set(omit)


class _ArmByContract:
    """stand-in for Arm in the symbolic run: records what the loader hands over (contract of Arm.__init__ and the
    setters, proved under C05: the arm stores these values)"""
    last = None

    def __init__(self, base, screw_list, home, joint_homes, joint_axes=None):
        self.base, self.screw_list, self.home = base, screw_list.copy(), home
        self.joint_homes, self.joint_axes = joint_homes, joint_axes
        self.num_dof = screw_list.shape[1]
        self.calls = {}
        _ArmByContract.last = self

    def setNames(self, name, link_names, joint_names):
        self.joint_names, self.link_names = list(joint_names), list(link_names)

    def setJointProperties(self, joint_mins=None, joint_maxs=None, max_vels=None, max_effort=None):
        self.joint_mins, self.joint_maxs = joint_mins, joint_maxs

    def __getattr__(self, name):
        if name.startswith('set'):
            return lambda *a, **k: self.calls.__setitem__(name, (a, k))
        raise AttributeError(name)


class URDFC(Contract):
    prop = 'C13'
    target = ARM + ':loadArmFromURDF'
    under_contract = (ARM + ':Arm.__init__ (by its contract, C05)',)
    tol = 1e-6
    max_paths = 120
    timeout = 60.0
    shape = ()
    world = False
    masses = False

    @property
    def shape_bound(self):
        return 'tree shape %s%s; all origin / axis / limit values in the stated ranges' % (
            ''.join('M' if j.kind != 'fixed' else 'F' for j in self.shape), ', world link' if self.world else '')

    def prepare(self):
        stubs.install()

    def setup(self, g):
        return (), {}

    def build(self, g):
        """the document text and the file's own semantics"""
        npx.SymTok.table.clear()
        links = ['world' if self.world else 'base_link'] + ['link%d' % i for i in range(len(self.shape))]
        out = ['<?xml version="1.0"?>', '<robot name="gen">']
        for l in links:
            if self.masses and l != 'world':
                out.append('  <link name="%s"><inertial><origin xyz="0 0 0.1" rpy="0 0 0"/><mass value="1.5"/>'
                           '<inertia ixx="0.1" ixy="0" ixz="0" iyy="0.1" iyz="0" izz="0.1"/></inertial></link>' % l)
            else:
                out.append('  <link name="%s"/>' % l)
        spec = []
        for i, j in enumerate(self.shape):
            nm = 'joint%d' % i
            out.append('  <joint name="%s" type="%s">' % (nm, j.kind))
            out.append('    <parent link="%s"/><child link="%s"/>' % (links[i], links[i + 1]))
            zero = [Val(g, const=0.0) for _ in range(3)]
            xyz, rpy = zero, zero
            if 'origin' not in j.omit:
                attrs = ''
                if 'xyz' not in j.omit:
                    xyz = [Val(g, 'p%d%s' % (i, c), lo=-1.0, hi=1.0) for c in 'xyz']
                    attrs += ' xyz="%s"' % ' '.join(v.text for v in xyz)
                if 'rpy' not in j.omit:
                    if j.rpy == 'sym':
                        rpy = [angle(g, 'r%d%s' % (i, c)) for c in 'rpy']
                    elif j.rpy == 'yaw':
                        rpy = [Val(g, const=0.0), Val(g, const=0.0), angle(g, 'r%dy' % i)]
                    else:
                        rpy = [Val(g, const=c) for c in j.rpy]
                    attrs += ' rpy="%s"' % ' '.join(v.text for v in rpy)
                out.append('    <origin%s/>' % attrs)
            ax = None
            lim = None
            if j.kind != 'fixed':
                ax = [1.0, 0.0, 0.0]
                if 'axis' not in j.omit:
                    if j.axis == 'sym':
                        u = g.unit('a%d' % i, 3)
                        vals = []
                        for c, x in zip('xyz', u):
                            v = Val.__new__(Val)
                            v.v, v.sym = x, True
                            if g.symbolic:
                                v.text = '@a%d%s' % (i, c)
                                npx.SymTok.table[v.text] = x
                            else:
                                v.text = repr(float(x))
                            vals.append(v)
                        ax = [v.v for v in vals]
                        out.append('    <axis xyz="%s"/>' % ' '.join(v.text for v in vals))
                    else:
                        ax = {'x': [1.0, 0.0, 0.0], 'y': [0.0, 1.0, 0.0], 'z': [0.0, 0.0, 1.0], '-z': [0.0, 0.0, -1.0]}[j.axis]
                        out.append('    <axis xyz="%s"/>' % ' '.join(repr(x) for x in ax))
                lo, hi = Val(g, 'lo%d' % i, lo=-3.0, hi=0.0), Val(g, 'hi%d' % i, lo=0.0, hi=3.0)    # a limit of exactly 0 is a legitimate value
                lim = (lo.v, hi.v)
                out.append('    <limit lower="%s" upper="%s" effort="10" velocity="3"/>' % (lo.text, hi.text))
            out.append('  </joint>')
            spec.append(dict(name=nm, kind=j.kind, xyz=[v.v for v in xyz], rpy=[v.v for v in rpy], axis=ax, lim=lim))
        out.append('</robot>')
        return '\n'.join(out) + '\n', spec

    def run(self, g, fn, args, kwargs):
        text, spec = self.build(g)
        self.text = text
        if g.symbolic:
            gh = stubs.ghost_of(g.ctx)
            gh.body_exp = True          # exp of the roll / pitch / yaw vectors: the real body (values, not fresh results)
            gh.roundtrip = True
            g.ctx.note_assumption('callee contract (proved under C05, Arm_init / Arm_FK): Arm(tm(), S, M, ...) stores the screws S and '
                                  'the home pose M it is given and FK(theta) = PoE(M, S, theta); Arm is replaced by a recorder in this run')
            g.ctx.note_assumption('float(text) / numpy parsing of an attribute token yields the real number the text denotes')
            mod = g.module(ARM)
            real_arm = mod.Arm
            mod.Arm = _ArmByContract
            try:
                arm = mod.loadArmFromURDF(proxies.SymDoc(text))
            finally:
                mod.Arm = real_arm
            return arm, spec
        d = tempfile.mkdtemp(prefix='pyvc_urdf_')
        try:
            path = os.path.join(d, 'gen.urdf')
            with open(path, 'w') as f:
                f.write(text)
            arm = g.module(ARM).loadArmFromURDF(path)
        finally:
            shutil.rmtree(d, ignore_errors=True)
        return arm, spec

    def post(self, g, out, args, kwargs):
        arm, spec = out
        g.holds('the loader returns an arm', arm is not None)
        if arm is None:
            return
        moving = [j for j in spec if j['kind'] != 'fixed']
        n = len(moving)
        g.holds('degrees of freedom = number of moving joints in the file (%d)' % n, arm.num_dof == n)
        if arm.num_dof != n:
            return
        g.holds('joint names in file order', list(arm.joint_names) == [j['name'] for j in moving])
        like = S.arr([g.real('like_', lo=0.0, hi=1.0)]) if g.symbolic else _np.zeros(1)
        z = zone(g)
        if g.symbolic:
            g.eq('base pose handed to Arm is the identity', arm.base.gTM(), S.eye(4, like))
            screws, home = arm.screw_list, arm.home.gTM()
        else:
            screws, home = arm.screw_list, arm._end_effector_home.gTM()
        C = S.eye(4, like)
        k = 0
        for j in spec:
            C = S.mm(C, origin_spec(j['xyz'], j['rpy'], like))
            if j['kind'] == 'fixed':
                continue
            w = S.mm(C[0:3, 0:3], S.arr(list(j['axis'])))
            q = C[0:3, 3]
            want = S.arr(list(w) + list(S.cross3(q, w)))
            g.eq('screw of %s = Ad(cumulative origin frame)(axis, 0)%s' % (j['name'], z), screws[:, k], want)
            g.eq('lower limit of %s as written in the file' % j['name'], arm.joint_mins[k], j['lim'][0])
            g.eq('upper limit of %s as written in the file' % j['name'], arm.joint_maxs[k], j['lim'][1])
            k += 1
        g.eq('home tool pose = product of all joint origins (fixed joints folded in)' + z, home, C)
        if not g.symbolic:
            # native replay: forward kinematics end to end against the file's own semantics
            th = _np.array([0.5 * (float(j['lim'][0]) + float(j['lim'][1])) + 0.3 for j in moving])
            th = _np.minimum(_np.maximum(th, [float(j['lim'][0]) for j in moving]), [float(j['lim'][1]) for j in moving])
            M = _np.eye(4)
            k = 0
            for j in spec:
                M = M @ _np.array(origin_spec(j['xyz'], j['rpy'], like), dtype=float)
                if j['kind'] != 'fixed':
                    Rm = _np.eye(4)
                    Rm[0:3, 0:3] = _np.array(rot_axis(S.arr(list(j['axis'])), th[k]), dtype=float)
                    M = M @ Rm
                    k += 1
            g.eq('FK at a joint vector inside the limits = successive origin transforms and joint rotations',
                 arm.FK(th.copy()).gTM(), M)


def _mk(name, shape, tier='quick', **kw):
    d = dict(shape=tuple(shape), tier=tier)
    d.update(kw)
    register(type(name, (URDFC,), d))


J = Joint
_mk('URDF_one_joint_generic', [J('revolute', axis='sym')])
_mk('URDF_fixed_before_and_after', [J('fixed', rpy='yaw'), J('continuous', rpy='yaw', axis='y'), J('fixed', rpy=(0.0, 0.0, 0.0))])
_mk('URDF_defaults_origin_axis', [J('revolute', rpy='yaw', axis='z'), J('revolute', omit=('origin', 'axis'))])
_mk('URDF_defaults_xyz_rpy_world', [J('revolute', omit=('rpy',), axis='-z'), J('fixed', omit=('xyz',), rpy='yaw'),
                                    J('continuous', omit=('xyz', 'rpy'), axis='x')], world=True)
_mk('URDF_with_inertial_data', [J('revolute', rpy='yaw', axis='z'), J('fixed', rpy='yaw')], masses=True)
# (two generic roll-pitch-yaw origins in a row can compose to a rotation inside the exponential's cut-off zone, where the
# loader's detour through rotation vectors drops it -- the F19 mechanism; the second origin is therefore a translation)
_mk('URDF_two_joints_generic', [J('revolute', axis='sym'), J('revolute', axis='sym', omit=('rpy',))], tier='thorough')
_mk('URDF_three_joints_fixed_between', [J('revolute', rpy='yaw', axis='z'), J('fixed'), J('revolute', rpy='yaw', axis='y'),
                                        J('revolute', omit=('origin',), axis='x'), J('fixed', rpy='yaw')], tier='thorough',
    world=True)


@register
class Lemma_URDF_joint_factor(Contract):
    """a revolute joint factor: Exp6((a, 0) theta) = [Rot(a, theta), 0] (Rodrigues' rotation about the unit axis a), so
    with Lemma_PoE_equivariance  C Rot(a, theta) inv(C) = Exp6(Ad(C)(a, 0) theta)  and the product of exponentials of
    the screws handed to Arm telescopes to the file's successive origin transforms and joint rotations"""
    prop = 'C13'
    target = None
    timeout = 60.0

    def setup(self, g):
        return (), {}

    def run(self, g, fn, args, kwargs):
        return None

    def post(self, g, out, args, kwargs):
        a = g.unit('a', 3)
        th = g.real('t', lo=0.01, hi=3.0)
        Sv = S.arr(list(a) + [0 * th, 0 * th, 0 * th])
        lhs = S.Exp6(Sv * th)
        rhs = S.RpT(rot_axis(S.arr(list(a)), th), S.arr([0 * th, 0 * th, 0 * th]))
        g.eq('Exp6((a, 0) theta) = [Rot(a, theta), 0]', lhs, rhs)


def _urdf_reference_fk(path, th_of):
    """the file's own semantics, computed independently of the library with xml.etree and numpy: successive joint origins
    (xyz, fixed-axis rpy) each followed by a rotation about the joint axis, along the chain with the most descendants"""
    import xml.etree.ElementTree as ET

    def rx(a):
        c, s = _np.cos(a), _np.sin(a)
        return _np.array([[1, 0, 0], [0, c, -s], [0, s, c]])

    def ry(a):
        c, s = _np.cos(a), _np.sin(a)
        return _np.array([[c, 0, s], [0, 1, 0], [-s, 0, c]])

    def rz(a):
        c, s = _np.cos(a), _np.sin(a)
        return _np.array([[c, -s, 0], [s, c, 0], [0, 0, 1]])
    root = ET.parse(path).getroot()
    joints = []
    for j in root.findall('joint'):
        o = j.find('origin')
        xyz = [float(x) for x in (o.get('xyz') if o is not None and o.get('xyz') else '0 0 0').split()]
        rpy = [float(x) for x in (o.get('rpy') if o is not None and o.get('rpy') else '0 0 0').split()]
        a = j.find('axis')
        axis = [float(x) for x in a.get('xyz').split()] if a is not None else [1.0, 0.0, 0.0]
        lim = j.find('limit')
        joints.append(dict(name=j.get('name'), type=j.get('type'), parent=j.find('parent').get('link'),
                           child=j.find('child').get('link'), xyz=xyz, rpy=rpy, axis=axis,
                           lo=float(lim.get('lower')) if lim is not None and lim.get('lower') is not None else -2 * _np.pi,
                           hi=float(lim.get('upper')) if lim is not None and lim.get('upper') is not None else 2 * _np.pi))
    children = {}
    for j in joints:
        children.setdefault(j['parent'], []).append(j)
    all_children = set(j['child'] for j in joints)
    roots = [l.get('name') for l in root.findall('link') if l.get('name') not in all_children]

    def leaves(link):
        js = children.get(link, [])
        return 1 if not js else sum(leaves(j['child']) for j in js)
    link = 'world' if 'world' in roots else roots[0]
    chain = []
    while children.get(link):
        js = children[link]
        best = js[0]
        for j in js:
            if leaves(j['child']) > leaves(best['child']):
                best = j
        chain.append(best)
        link = best['child']
    moving = [j for j in chain if j['type'] != 'fixed']
    th = th_of(moving)
    M = _np.eye(4)
    k = 0
    for j in chain:
        O = _np.eye(4)
        O[0:3, 0:3] = rz(j['rpy'][2]) @ ry(j['rpy'][1]) @ rx(j['rpy'][0])
        O[0:3, 3] = j['xyz']
        M = M @ O
        if j['type'] != 'fixed':
            a = _np.array(j['axis'], dtype=float)
            a = a / _np.linalg.norm(a)
            K = _np.array([[0, -a[2], a[1]], [a[2], 0, -a[0]], [-a[1], a[0], 0]])
            R = _np.eye(4)
            R[0:3, 0:3] = _np.eye(3) + _np.sin(th[k]) * K + (1 - _np.cos(th[k])) * (K @ K)
            M = M @ R
            k += 1
    return M, moving, th


@register
class URDF_bundled_files_probes(Contract):
    """BOUNDED native stand-in (probes; never counted as proved): the URDF files bundled with the test-suite (they use
    visual / collision / mesh elements outside the subset the symbolic documents model) are loaded by the native loader and
    FK is compared, at three joint vectors inside the declared limits each, with the file's own semantics computed
    independently with xml.etree and numpy; degrees of freedom, joint names and limits as written"""
    prop = 'C13'
    target = ARM + ':loadArmFromURDF'
    tol = 1e-6
    FILES = ('ur5.urdf', 'irb_2400.urdf', 'puma_560.urdf')
    probes = [dict(file=float(f), k=float(k)) for f in range(3) for k in range(3)]
    shape_bound = 'probes: 3 bundled files x 3 joint vectors, native code'

    def setup(self, g):
        return (), {}

    def run(self, g, fn, args, kwargs):
        f, k = g.real('file', lo=0.0, hi=2.0), g.real('k', lo=0.0, hi=2.0)
        if g.mode != 'concrete':
            return None
        repo = os.environ.get('PYVC_REPO', '/repo')
        path = os.path.join(repo, 'tests', 'test_helpers', self.FILES[int(round(f))])
        if not os.path.exists(path):
            # a scratch copy holding only the package: the bundled files are inputs, take them from /repo; skip if absent
            path = os.path.join('/repo', 'tests', 'test_helpers', self.FILES[int(round(f))])
            if not os.path.exists(path):
                from pyvc.contract import Reject
                raise Reject('bundled URDF file not present')
            repo = '/repo'
        rng = _np.random.RandomState(100 + int(round(k)))

        def th_of(moving):
            return _np.array([j['lo'] + (j['hi'] - j['lo']) * (0.15 + 0.7 * rng.rand()) for j in moving])
        M, moving, th = _urdf_reference_fk(path, th_of)
        cwd = os.getcwd()
        os.chdir(repo)      # mesh file names in the bundled files are resolved relative to the repository root
        try:
            arm = g.module(ARM).loadArmFromURDF(path)
        finally:
            os.chdir(cwd)
        return arm, M, moving, th

    def post(self, g, out, args, kwargs):
        if out is None:
            g.holds('probe-only contract: %d inputs are run on the native code' % len(self.probes), len(self.probes) > 0)
            return
        arm, M, moving, th = out
        g.holds('degrees of freedom = moving joints along the main chain', arm.num_dof == len(moving))
        g.holds('joint names in file order', list(arm.joint_names) == [j['name'] for j in moving])
        g.eq('lower limits as written', _np.array(arm.joint_mins, dtype=float), _np.array([j['lo'] for j in moving]))
        g.eq('upper limits as written', _np.array(arm.joint_maxs, dtype=float), _np.array([j['hi'] for j in moving]))
        g.eq('FK = successive origin transforms and joint rotations of the file', arm.FK(th.copy()).gTM(), M)
