"""L3 contracts: the serial arm (properties C05, C06, C07 arm level, C17 index safety)."""
import numpy as _np
from pyvc.contract import Contract, register
from pyvc import spec as S
from pyvc import terms as T
from pyvc import stubs, npx, loader
from .l1_tm import TMM, BH, MR
from .l2_screw_wrench import frame

ARM = 'basic_robotics.kinematics.arm_model'
FHP = 'basic_robotics.general.faser_high_performance'
ZONE = ' [a rotation vector of norm below 1e-6 went through the exponential cut-off]'


def zone(g):
    if g.symbolic and stubs.ghost_of(g.ctx).cutoff_hits:
        return ZONE
    return ''


def unit_screws(g, name, n):
    cols = []
    for i in range(n):
        cols.append(list(g.unit('%sw%d_' % (name, i), 3)) + list(g.reals('%sv%d_' % (name, i), 3, scale=1.5)))
    return g.arr([[cols[j][k] for j in range(n)] for k in range(6)])


class ArmFixture:
    """an arbitrary n-joint arm: unit-axis screws S0 (base frame), home tool pose M0 (base frame), joint positions,
    built at an arbitrary base pose (or at the identity)"""

    def __init__(self, g, n, base_identity=False, fixed_geometry=False):
        tm = g.module(TMM).tm
        self.n = n
        if fixed_geometry:
            # a fixed chain with rational data: axes z, y, x, ... at offset points; home pose a pure translation
            axes = [[0, 0, 1], [0, 1, 0], [1, 0, 0]]
            pts = [[0, 0, 0.5], [0.75, 0, 0.5], [1.5, 0.25, 0.5]]
            cols = []
            for k in range(n):
                w, q = axes[k % 3], pts[k % 3]
                v = [q[1] * w[2] - q[2] * w[1], q[2] * w[0] - q[0] * w[2], q[0] * w[1] - q[1] * w[0]]
                cols.append(w + v)
            mk = (lambda x: npx.array(x, dtype=float)) if g.symbolic else (lambda x: _np.array(x, dtype=float))
            self.S0 = mk([[cols[j][k] for j in range(n)] for k in range(6)])
            self.M0 = mk([[1, 0, 0, 2.0], [0, 1, 0, 0.25], [0, 0, 1, 0.5], [0, 0, 0, 1]])
            self.home = tm(self.M0.copy())
            self.jp = mk([[pts[k % 3][r] for k in range(n)] for r in range(3)])
        else:
            self.S0 = unit_screws(g, 'S', n)
            self.home, self.M0 = frame(g, 'H')
            self.jp = g.arr([g.reals('J%d_' % k, n, scale=1.5) for k in range(3)])
        if base_identity:
            self.base, self.Mb = tm(), S.eye(4, self.M0)
        else:
            self.base, self.Mb = frame(g, 'B')
        self.given_S = self.S0.copy()
        self.given_jp = self.jp.copy()
        self.arm = g.module(ARM).Arm(self.base, self.given_S, self.home, self.given_jp)

    def thetas(self, g, name='t', lo=0.01, hi=3.0):
        return g.arr(g.reals(name, self.n, lo=lo, hi=hi))


def check_coherent_arm(g, fx, Mb, label, tool=None):
    """coherent_arm: stored screws = Ad(base) S0, home = base M0 tool, base recorded, backups = what was given"""
    a = fx.arm
    z = zone(g)
    g.eq(label + ': space screws = Ad(base) S0', a.screw_list, S.mm(S.Ad(Mb), fx.S0))
    H = S.mm(Mb, fx.M0) if tool is None else S.mm(Mb, fx.M0, tool)
    g.eq(label + ': home tool pose = base M0' + z, a._end_effector_home.gTM(), H)
    g.eq(label + ': recorded base pose', a.getBasePos().gTM(), Mb)
    g.eq(label + ': backup of the screws = the screws as given', a.original_screw_list, fx.S0)
    if tool is None:
        g.eq(label + ': backup of the home tool pose = base M0' + z, a._original_end_effector_home.gTM(), H)


class ArmC(Contract):
    prop = 'C05'
    n = 1
    fixed_geometry = False
    tol = 1e-7
    max_paths = 300
    timeout = 40.0

    def prepare(self):
        stubs.install()

    def setup(self, g):
        return (), {}

    @property
    def shape_bound(self):
        if self.fixed_geometry:
            return 'one fixed %d-joint geometry (rational screws, home pose); all base poses / joint values' % self.n
        return '%d joint(s), fully symbolic unit-axis screws, home pose and joint positions' % self.n


class _ArmInit(ArmC):
    """Arm(...) at an arbitrary base: coherent_arm established, the arrays handed in are left unaltered (C14),
    FK(0) was evaluated: tool pose = home"""
    target = ARM + ':Arm.__init__'
    under_contract = (ARM + ':Arm.initialize',)
    prop = ('C05', 'C14', 'C06')     # the body-screw clause is what jacobianBody (C06) relies on

    def run(self, g, fn, args, kwargs):
        fx = ArmFixture(g, self.n, fixed_geometry=self.fixed_geometry)
        return fx

    def post(self, g, fx, args, kwargs):
        check_coherent_arm(g, fx, fx.Mb, 'after construction')
        own = fx.arm._base_pos_global
        g.holds('the arm keeps its own copy of the base pose (no aliasing of the argument object)',
                own is not fx.base and not _np.shares_memory(own.TM, fx.base.TM) and not _np.shares_memory(own.TAA, fx.base.TAA))
        g.eq('the screw array handed to the constructor is left unaltered', fx.given_S, fx.S0)
        g.eq('the joint-position array handed to the constructor is left unaltered', fx.given_jp, fx.jp)
        g.eq('tool pose after construction = home pose' + zone(g), fx.arm.getEEPos().gTM(), S.mm(fx.Mb, fx.M0))
        Ad = S.Ad(S.inv_SE3(S.mm(fx.Mb, fx.M0)))
        g.eq('body screws = Ad(inv(home)) space screws' + zone(g), fx.arm.screw_list_body, S.mm(Ad, S.mm(S.Ad(fx.Mb), fx.S0)))


class _ArmFK(ArmC):
    """FK(theta) = PoE(home, stored screws, theta) for theta inside the limits, and the arm's state is that pose"""
    target = ARM + ':Arm.FK'
    under_contract = (MR + ':FKinSpace', ARM + ':Arm.thetaProtector')
    base_identity = True

    def run(self, g, fn, args, kwargs):
        fx = ArmFixture(g, self.n, base_identity=self.base_identity, fixed_geometry=self.fixed_geometry)
        th = fx.thetas(g)
        self.th_given = th.copy()
        T1 = fx.arm.FK(th)
        return fx, th, T1

    def post(self, g, out, args, kwargs):
        fx, th, T1 = out
        a = fx.arm
        H = a._end_effector_home.gTM()
        want = S.PoE(H, a.screw_list, list(self.th_given))
        z = zone(g)
        g.eq('FK = product of exponentials of the stored screws times the home pose' + z, T1.gTM(), want, tol=5e-6)
        g.eq('reported tool pose = FK result' + z, a.getEEPos().gTM(), T1.gTM())
        g.eq('stored joint state = theta', a._theta, self.th_given)
        check_coherent_arm(g, fx, fx.Mb, 'after FK')


class _ArmFKclamp(ArmC):
    """a joint vector outside the limits is evaluated as if clamped to them"""
    target = ARM + ':Arm.thetaProtector'

    def run(self, g, fn, args, kwargs):
        fx = ArmFixture(g, self.n, base_identity=True, fixed_geometry=True)
        lo = g.arr(g.reals('lo', self.n, lo=-4.0, hi=-0.1))
        hi = g.arr(g.reals('hi', self.n, lo=0.1, hi=4.0))
        fx.arm.setJointProperties(joint_mins=lo.copy(), joint_maxs=hi.copy())
        th = g.arr(g.reals('t', self.n, lo=-6.0, hi=6.0))
        given = th.copy()
        out = fx.arm.thetaProtector(th)
        return fx, given, out, lo, hi

    def post(self, g, res, args, kwargs):
        fx, given, out, lo, hi = res
        for j in range(self.n):
            x = given[j]
            if x < lo[j]:
                g.eq('joint %d below its limit is clamped to the limit' % j, out[j], lo[j])
            elif x > hi[j]:
                g.eq('joint %d above its limit is clamped to the limit' % j, out[j], hi[j])
            else:
                g.eq('joint %d inside its limits is unchanged' % j, out[j], x)


class _ArmMove(ArmC):
    """move(new base): coherent_arm for the new base (screws re-derived from the ORIGINAL screws), tool pose = FK of the
    kept joint state at the new base"""
    target = ARM + ':Arm.move'
    under_contract = (ARM + ':Arm.initialize',)

    fixed_geometry = False

    def run(self, g, fn, args, kwargs):
        fx = ArmFixture(g, self.n, base_identity=self.fixed_geometry, fixed_geometry=self.fixed_geometry)
        nb, Mn = frame(g, 'N')
        fx.arm.move(nb)
        own = fx.arm._base_pos_global
        self.alias_ok = own is not nb and not _np.shares_memory(own.TM, nb.TM) and not _np.shares_memory(own.TAA, nb.TAA)
        return fx, Mn

    def post(self, g, out, args, kwargs):
        fx, Mn = out
        check_coherent_arm(g, fx, Mn, 'after move')
        g.holds('after move the arm keeps its own copy of the base pose', self.alias_ok)
        g.eq('tool pose after move (joint state zero) = new base M0' + zone(g), fx.arm.getEEPos().gTM(), S.mm(Mn, fx.M0))
        # history: move; restoreOriginalEE; FK(0) -- the restored home must be the home at the NEW base
        fx.arm.restoreOriginalEE()
        z = zone(g)
        g.eq('after move and restoreOriginalEE the home tool pose = new base M0' + z, fx.arm._end_effector_home.gTM(), S.mm(Mn, fx.M0))
        th0 = npx.zeros(fx.n) if g.symbolic else _np.zeros(fx.n)
        g.eq('after move, restoreOriginalEE, FK(0): tool pose = new base M0' + z, fx.arm.FK(th0).gTM(), S.mm(Mn, fx.M0), tol=5e-6)


class _ArmTool(ArmC):
    """restoreOriginalEE after setArbitraryHome: the original home pose is back"""
    target = ARM + ':Arm.restoreOriginalEE'
    under_contract = (ARM + ':Arm.setArbitraryHome',)

    def run(self, g, fn, args, kwargs):
        fx = ArmFixture(g, self.n, base_identity=True)
        new_home, Mh = frame(g, 'N')
        th = fx.thetas(g)
        fx.arm.setArbitraryHome(new_home, th)
        z1 = zone(g)
        t_after = fx.arm.FK(th.copy())
        z2 = zone(g)
        fx.arm.restoreOriginalEE()
        return fx, Mh, t_after, (z1, z2)

    def post(self, g, out, args, kwargs):
        fx, Mh, t_after, (z1, z2) = out
        g.eq('after setArbitraryHome(new, theta) the tool pose at theta is the requested pose' + z2, t_after.gTM(), Mh, tol=5e-6)
        g.eq('restoreOriginalEE restores the original home pose', fx.arm._end_effector_home.gTM(), fx.M0)


class _ArmJac(ArmC):
    """jacobian()/jacobianBody(): J_space = analytic space Jacobian of the stored screws, J_body = Ad(inv(T)) J_space with
    T the tool pose at theta (C06)"""
    prop = 'C06'
    target = ARM + ':Arm.jacobianBody'
    under_contract = (ARM + ':Arm.jacobian', MR + ':JacobianSpace', MR + ':JacobianBody')

    def run(self, g, fn, args, kwargs):
        fx = ArmFixture(g, self.n, base_identity=True, fixed_geometry=self.fixed_geometry)
        th = fx.thetas(g)
        T1 = fx.arm.FK(th.copy())
        Js = fx.arm.jacobian(th.copy())
        Jb = fx.arm.jacobianBody(th.copy())
        Js_default = fx.arm.jacobian()
        return fx, th, T1, Js, Jb, Js_default

    def post(self, g, out, args, kwargs):
        fx, th, T1, Js, Jb, Jsd = out
        a = fx.arm
        n = self.n
        Tm = S.eye(4, th)
        g.eq('J_space column 0 = first screw', Js[:, 0], a.screw_list[:, 0])
        for i in range(1, n):
            col = S.arr([a.screw_list[k][i - 1] * th[i - 1] for k in range(6)])
            Tm = S.mm(Tm, S.Exp6(col))
            g.eq('J_space column %d = Ad(prod exp) S_%d' % (i, i), Js[:, i], S.mm(S.Ad(Tm), a.screw_list[:, i]))
        g.eq('jacobian() with defaulted argument refers to the stored joint state', Jsd, Js)
        z = zone(g)
        g.eq('J_body = Ad(inv(T)) J_space' + z, Jb, S.mm(S.Ad(S.inv_SE3(T1.gTM())), Js), tol=5e-6)


class _ArmToolJac(ArmC):
    """tool change then Jacobians (C06 'including after move and tool change'): after setArbitraryHome and after
    restoreOriginalEE the stored body screws are Ad(inv(current home)) of the stored space screws, and
    jacobianBody = Ad(inv(T)) jacobian at the current tool pose"""
    prop = 'C06'
    target = ARM + ':Arm.setArbitraryHome'
    under_contract = (ARM + ':Arm.restoreOriginalEE', ARM + ':Arm.jacobianBody', MR + ':JacobianBody')

    def run(self, g, fn, args, kwargs):
        fx = ArmFixture(g, self.n, base_identity=True, fixed_geometry=self.fixed_geometry)
        if self.fixed_geometry:
            # a fixed rational tool pose (rotation about z by atan2(4, 3), then about x by atan2(5, 12))
            from fractions import Fraction as Fr
            rows = [[Fr(3, 5), Fr(-48, 65), Fr(4, 13), Fr(5, 4)], [Fr(4, 5), Fr(36, 65), Fr(-3, 13), Fr(-1, 2)],
                    [Fr(0), Fr(5, 13), Fr(12, 13), Fr(3, 4)], [Fr(0), Fr(0), Fr(0), Fr(1)]]
            if g.symbolic:
                Mh = S.arr([[T.SR.const(x) for x in r] for r in rows])
            else:
                Mh = _np.array([[float(x) for x in r] for r in rows])
            new_home = g.module(TMM).tm(Mh.copy())
        else:
            new_home, Mh = frame(g, 'N')
        th = fx.thetas(g)
        a = fx.arm
        a.setArbitraryHome(new_home, th.copy())
        H1 = a._end_effector_home.gTM().copy()
        B1 = a.screw_list_body.copy()
        T1 = a.FK(th.copy()).gTM().copy()
        Js1, Jb1 = a.jacobian(th.copy()), a.jacobianBody(th.copy())
        z1 = zone(g)
        a.restoreOriginalEE()
        H2 = a._end_effector_home.gTM().copy()
        B2 = a.screw_list_body.copy()
        return fx, (H1, B1, T1, Js1, Jb1, z1), (H2, B2)

    def post(self, g, out, args, kwargs):
        fx, (H1, B1, T1, Js1, Jb1, z1), (H2, B2) = out
        a = fx.arm
        g.eq('after setArbitraryHome: body screws = Ad(inv(new home)) space screws' + z1, B1,
             S.mm(S.Ad(S.inv_SE3(H1)), a.screw_list))
        g.eq('after setArbitraryHome: J_body = Ad(inv(T)) J_space' + z1, Jb1, S.mm(S.Ad(S.inv_SE3(T1)), Js1), tol=5e-6)
        g.eq('after restoreOriginalEE: body screws = Ad(inv(home)) space screws', B2,
             S.mm(S.Ad(S.inv_SE3(H2)), a.screw_list))


class _ArmJacDeriv(ArmC):
    """the space Jacobian is the derivative of forward kinematics: vee(dT/dtheta_j T^-1) = J[:, j]
    (forward-mode differentiation of the executed FK code on dual numbers)"""
    prop = 'C06'
    target = ARM + ':Arm.jacobian'
    under_contract = (ARM + ':Arm.FK', MR + ':FKinSpace', MR + ':JacobianSpace')

    def run(self, g, fn, args, kwargs):
        fx = ArmFixture(g, self.n, base_identity=True, fixed_geometry=self.fixed_geometry)
        th = fx.thetas(g)
        if not g.symbolic:
            return fx, th, None, fx.arm.jacobian(th.copy())
        mr = g.module(MR)
        a = fx.arm
        cols = []
        gh = stubs.ghost_of(g.ctx)
        for j in range(self.n):
            dth = _np.empty(self.n, dtype=object)
            for k in range(self.n):
                dth[k] = T.Dual(th[k], 1 if k == j else 0)
            gh.real_depth += 1          # execute the real kernels on dual numbers
            try:
                Td = mr.FKinSpace(a._end_effector_home.gTM(), a.screw_list, dth.view(npx.SArr))
            finally:
                gh.real_depth -= 1
            Tv = _np.empty((4, 4), dtype=object)
            Tdot = _np.empty((4, 4), dtype=object)
            for idx in _np.ndindex(4, 4):
                c = Td[idx]
                if isinstance(c, T.Dual):
                    Tv[idx], Tdot[idx] = c.v, c.d
                else:
                    Tv[idx], Tdot[idx] = T.SR.lift(c), T.ZERO
            cols.append((npx.S(Tv), npx.S(Tdot)))
        return fx, th, cols, a.jacobian(th.copy())

    def post(self, g, out, args, kwargs):
        fx, th, cols, Js = out
        if cols is None:
            # native replay: central differences
            h = 1e-6
            a = fx.arm
            for j in range(self.n):
                tp, tm_ = _np.array(th, dtype=float), _np.array(th, dtype=float)
                tp[j] += h
                tm_[j] -= h
                Tp, Tm_ = a.FK(tp).gTM(), a.FK(tm_).gTM()
                T0 = a.FK(_np.array(th, dtype=float)).gTM()
                Td = (Tp - Tm_) / (2 * h)
                X = Td @ _np.linalg.inv(T0)
                g.eq('column %d of the space Jacobian = vee(dT/dtheta T^-1)' % j, S.vee6(X), Js[:, j], tol=1e-5)
            return
        for j, (Tv, Tdot) in enumerate(cols):
            X = S.mm(Tdot, S.inv_SE3(Tv))
            g.eq('column %d of the space Jacobian = vee(dT/dtheta_%d T^-1)' % (j, j), S.vee6(X), Js[:, j])
            g.eq('dT/dtheta T^-1 is a twist matrix (symmetric part zero)', X[0:3, 0:3] + X[0:3, 0:3].T, 0 * X[0:3, 0:3])


class _ArmStatics(ArmC):
    """staticForces = J^T F, hence torque . rate = wrench . twist for every rate"""
    prop = 'C06'
    target = 'basic_robotics.kinematics.robot_model:Robot.staticForces'
    under_contract = ('basic_robotics.kinematics.robot_model:Robot.velocityAtEndEffector',)

    def run(self, g, fn, args, kwargs):
        fx = ArmFixture(g, self.n, base_identity=True, fixed_geometry=self.fixed_geometry)
        th = fx.thetas(g)
        F = g.arr(g.reals('F', 6)).reshape((6, 1))
        rate = g.arr(g.reals('r', self.n))
        fx.arm.FK(th.copy())
        tau = fx.arm.staticForces(F, th.copy())
        V = fx.arm.velocityAtEndEffector(rate, th.copy())
        J = fx.arm.jacobian(th.copy())
        return tau, V, J, F, rate

    def post(self, g, out, args, kwargs):
        tau, V, J, F, rate = out
        g.eq('staticForces = J^T F', tau, S.mm(J.T, F))
        g.eq('velocityAtEndEffector = J rate', V, S.mm(J, rate.reshape((self.n, 1))))
        g.eq('torque . rate = wrench . twist', S.mm(tau.T, rate.reshape((self.n, 1))), S.mm(F.T, V))


class _ArmIndex(ArmC):
    """C17: every kernel call made by FKJoint / FKLink / jacobianLink / getJointTransforms passes arrays whose
    extents match the indices the kernel uses (an IndexError in the executed Python source is what
    NUMBA_BOUNDSCHECK=1 reports natively); all link indices 0..n-1"""
    prop = 'C17'
    target = ARM + ':Arm.FKLink'
    under_contract = (ARM + ':Arm.FKJoint', ARM + ':Arm.jacobianLink', ARM + ':Arm.getJointTransforms', MR + ':FKinSpace',
                      MR + ':JacobianSpace')

    def run(self, g, fn, args, kwargs):
        # index safety does not depend on values (kernels index with loop counters derived from lengths only):
        # one concrete arm per shape, executed through the transformed Python source where NumPy checks every index
        tm = g.module(TMM).tm
        n = self.n
        g.real('unused', lo=0.0, hi=1.0)
        S0 = _np.zeros((6, n))
        jp = _np.zeros((3, n))
        for k in range(n):
            S0[:, k] = [0, 0, 1, 0, -(k + 1.0), 0] if k % 2 == 0 else [0, 1, 0, -(0.5), 0, (k + 1.0)]
            jp[:, k] = [k + 1.0, 0, 0.5 * (k % 2)]
        a = g.module(ARM).Arm(tm(), S0.copy(), tm([n + 1.0, 0, 0, 0, 0, 0]), jp.copy())
        a.setOrigins(link_homes_global=[tm([k * 1.0, 0, 0, 0, 0, 0]) for k in range(n + 1)])
        th = _np.array([0.3 + 0.2 * k for k in range(n)])
        res = {}
        mr = g.module(MR)
        orig = mr.FKinSpace
        seen = []

        def checked(M, Slist, thetalist):
            seen.append((npx.asarray(Slist).shape, len(thetalist)))
            return orig(M, Slist, thetalist)
        fmr = g.module(FHP)
        old = fmr.FKinSpace
        fmr.FKinSpace = checked
        try:
            for i in range(self.n):
                for nm, call in (('FKJoint', lambda: a.FKJoint(th.copy(), i)), ('FKLink', lambda: a.FKLink(th.copy(), i)),
                                 ('jacobianLink', lambda: a.jacobianLink(i, th.copy()))):
                    try:
                        call()
                        res[(nm, i)] = None
                    except IndexError as e:
                        res[(nm, i)] = 'IndexError: %s' % e
            try:
                a.getJointTransforms()
                res[('getJointTransforms', 0)] = None
            except IndexError as e:
                res[('getJointTransforms', 0)] = 'IndexError: %s' % e
        finally:
            fmr.FKinSpace = old
        return res, seen

    def post(self, g, out, args, kwargs):
        res, seen = out
        for (nm, i), err in sorted(res.items()):
            g.holds('%s(link %d) completes without an index error%s' % (nm, i, '' if err is None else ' (%s)' % err), err is None)
        ok = all(shape[1] >= nth for shape, nth in seen)
        bad = [x for x in seen if x[0][1] < x[1]]
        g.holds('every FKinSpace call receives at least as many screw columns as joint values%s' %
                ('' if ok else ' (first mismatch: screws %s, %d joint values)' % (bad[0][0], bad[0][1])), ok)


def _mk(name, base, ns=(1, 2), tiers=None, **kw):
    for n in ns:
        tier = (tiers or {}).get(n, 'quick')
        d = dict(n=n, tier=tier, __doc__=base.__doc__)
        d.update(kw)
        register(type('%s_%d' % (name, n), (base,), d))


# quick tier: one fixed rational geometry with 2 joints, everything else symbolic; thorough tier: fully symbolic geometry
# tier 'off': fully symbolic contracts that the thorough sweep of the final session did not decide within 2 h each
_mk('Arm_init_fixed_geometry', _ArmInit, ns=(2,), fixed_geometry=True)
_mk('Arm_init', _ArmInit, tiers={1: 'thorough', 2: 'thorough'})
_mk('Arm_FK_fixed_geometry', _ArmFK, ns=(2,), fixed_geometry=True)
_mk('Arm_FK', _ArmFK, tiers={1: 'thorough', 2: 'off'})
_mk('Arm_FK_any_base', _ArmFK, ns=(1,), tiers={1: 'off'}, base_identity=False)
_mk('Arm_FK_clamp', _ArmFKclamp, ns=(1, 2, 3))
_mk('Arm_move_fixed_geometry', _ArmMove, ns=(2,), fixed_geometry=True)
_mk('Arm_move', _ArmMove, tiers={1: 'off', 2: 'off'})
_mk('Arm_tool_change', _ArmTool, ns=(1,), tiers={1: 'off'})
_mk('Arm_jacobians_fixed_geometry', _ArmJac, ns=(2,), fixed_geometry=True)
_mk('Arm_jacobians', _ArmJac, tiers={1: 'thorough', 2: 'off'})
_mk('Arm_tool_change_jacobians_fixed_geometry', _ArmToolJac, ns=(1, 2), tiers={1: 'quick', 2: 'thorough'}, fixed_geometry=True)
_mk('Arm_jacobian_is_derivative_fixed_geometry', _ArmJacDeriv, ns=(2,), fixed_geometry=True)
_mk('Arm_jacobian_is_derivative', _ArmJacDeriv, tiers={1: 'thorough', 2: 'off'})
_mk('Arm_statics_fixed_geometry', _ArmStatics, ns=(2,), fixed_geometry=True)
_mk('Arm_statics', _ArmStatics, ns=(1,), tiers={1: 'thorough'})
_mk('Arm_index_safety', _ArmIndex, ns=(1, 2, 3))


@register
class Lemma_PoE_equivariance(Contract):
    """one factor of the product of exponentials is equivariant: Exp6(Ad(B) S theta) = B Exp6(S theta) inv(B) for every
    base pose B, unit-axis screw S and angle theta outside the cut-off -- by induction on the number of factors,
    PoE(B M, Ad(B) S, theta) = B PoE(M, S, theta) for chains of ANY length (lemma over the contracts of C05)"""
    prop = ('C05', 'C13')      # C13 telescopes the loader's screws with it
    target = None
    timeout = 60.0

    def setup(self, g):
        return (), {}

    def run(self, g, fn, args, kwargs):
        return None

    def post(self, g, out, args, kwargs):
        q = g.unit('Bq', 4)
        p = g.reals('Bp', 3, scale=2.0)
        B = S.RpT(S.Rq(q), p)
        w = g.unit('w', 3)
        v = g.reals('v', 3, scale=1.5)
        th = g.real('t', lo=0.01, hi=3.0)
        Sv = S.arr(list(w) + list(v))
        lhs = S.Exp6(S.mm(S.Ad(B), Sv) * th)
        rhs = S.mm(B, S.Exp6(Sv * th), S.inv_SE3(B))
        g.eq('Exp6(Ad(B) S theta) = B Exp6(S theta) inv(B)', lhs, rhs)
