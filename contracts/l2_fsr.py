"""L2 contracts: geometric helper functions (property C18).  Postconditions are the defining relations
written in the property statement."""
import math
import numpy as _np
from pyvc.contract import Contract, register
from pyvc import spec as S
from pyvc import terms as T
from pyvc import stubs, npx
from .l1_tm import TMM, BH, MR
from .l2_screw_wrench import frame

FSR = 'basic_robotics.general.faser_general'
ZONE = ' [a rotation vector of norm below 1e-6 went through the exponential cut-off]'


def zone(g):
    if g.symbolic and stubs.ghost_of(g.ctx).cutoff_hits:
        return ZONE
    return ''


class H(Contract):
    prop = 'C18'
    tol = 1e-8
    max_paths = 200
    body_exp = False
    body_log = False

    def prepare(self):
        stubs.install()

    def setup(self, g):
        return (), {}

    def modes(self, g):
        if g.symbolic:
            gh = stubs.ghost_of(g.ctx)
            gh.body_exp = self.body_exp
            gh.body_log = self.body_log


def pos_tm(g, name, scale=3.0):
    p = g.reals(name, 3, scale=scale)
    z = 0 * p[0]
    return g.module(TMM).tm([p[0], p[1], p[2], z, z, z]), p


@register
class Helper_planeFromThreePoints(H):
    """the plane a x + b y + c z = d returned for three points contains all three"""
    target = FSR + ':planeFromThreePoints'

    def run(self, g, fn, args, kwargs):
        pts = [pos_tm(g, n) for n in ('u', 'v', 'w')]
        return fn(pts[0][0], pts[1][0], pts[2][0]), [p for _, p in pts]

    def post(self, g, out, args, kwargs):
        (a, b, c, d), pts = out
        for i, p in enumerate(pts):
            g.eq('point %d lies in the plane' % i, a * p[0] + b * p[1] + c * p[2], d)


@register
class Helper_mirror(H):
    """mirror(o, p): reflection of p's position across the plane through o's position spanned by o's local x and y
    (normal = o's local z): p' = p - 2 ((p - o).n) n; an involution that negates only the local z coordinate"""
    target = FSR + ':mirror'
    under_contract = (FSR + ':planePointsFromTransform', FSR + ':planeFromThreePoints', TMM + ':tm.tripleUnit')

    def run(self, g, fn, args, kwargs):
        o, Mo = frame(g, 'o')
        p, pv = pos_tm(g, 'p')
        return fn(o, p), Mo, pv

    def post(self, g, out, args, kwargs):
        r, Mo, pv = out
        n = [Mo[0][2], Mo[1][2], Mo[2][2]]
        op = [Mo[0][3], Mo[1][3], Mo[2][3]]
        dist = S.dotv([pv[k] - op[k] for k in range(3)], n)
        want = [pv[k] - 2 * dist * n[k] for k in range(3)]
        g.eq('mirror image = p - 2((p - o).n) n', S.arr([r[0], r[1], r[2]]), S.arr(want))
        # local coordinates: x, y kept, z negated
        Ro = Mo[0:3, 0:3]
        loc_p = S.mm(Ro.T, S.arr([pv[k] - op[k] for k in range(3)]))
        loc_r = S.mm(Ro.T, S.arr([r[k] - op[k] for k in range(3)]))
        g.eq('local x, y kept and local z negated', loc_r, S.arr([loc_p[0], loc_p[1], -loc_p[2]]))


@register
class Helper_tmInterpMidpoint(H):
    """tmInterpMidpoint(a, b): mean position; rotation H R_a with H^2 = R_b R_a^T and H = exp(log(R_b R_a^T)/2)
    (geodesically halfway); R_b = E R_a with E an arbitrary rotation (unit quaternion ghost)"""
    target = FSR + ':tmInterpMidpoint'
    tier = 'off'  # off: not decided within 2 h in the thorough sweep of the final session (see DESIGN 11.8)
    body_exp = True
    body_log = True
    max_paths = 400
    timeout = 40.0

    def run(self, g, fn, args, kwargs):
        self.modes(g)
        tm = g.module(TMM).tm
        va = g.reals('a', 3, scale=1.5)
        e = g.unit('e', 4)
        pa = g.reals('p', 3, scale=3.0)
        pb = g.reals('s', 3, scale=3.0)
        E = S.Rq(e)
        if g.symbolic:
            gh = stubs.ghost_of(g.ctx)
            gh.body_exp = gh.body_log = False     # operands are arbitrary coherent transforms (L0 contracts)
        A = tm([pa[0], pa[1], pa[2], va[0], va[1], va[2]])
        Ra = A.gTM()[0:3, 0:3]
        B = tm(S.RpT(S.mm(E, Ra), pb))
        self.modes(g)
        return fn(A, B), Ra, E, pa, pb

    def post(self, g, out, args, kwargs):
        r, Ra, E, pa, pb = out
        z = zone(g)
        M = r.gTM()
        g.eq('position is the mean', M[0:3, 3], (S.arr(pa) + S.arr(pb)) / 2)
        Hm = S.mm(M[0:3, 0:3], Ra.T)             # R_mid = H R_a
        g.eq('H^2 = R_b R_a^T (halfway along the geodesic)' + z, S.mm(Hm, Hm), E, tol=5e-6)
        g.eq('H is a rotation' + z, S.mm(Hm.T, Hm), S.eye(3, Hm), tol=5e-6)


@register
class Helper_lookAt(H):
    """lookAt(a, b): position of a kept, proper rotation whose local z points from a to b
    (requires a != b and the direction not parallel to the world z axis)"""
    target = FSR + ':lookAt'
    max_paths = 100

    def run(self, g, fn, args, kwargs):
        a, pa = pos_tm(g, 'a')
        b, pb = pos_tm(g, 'b')
        d = [pb[k] - pa[k] for k in range(3)]
        g.require(d[0] * d[0] + d[1] * d[1] > 0.01)
        return fn(a, b), pa, pb

    def post(self, g, out, args, kwargs):
        r, pa, pb = out
        z = zone(g)
        M = r.gTM()
        g.eq('position kept', M[0:3, 3], S.arr(pa))
        R = M[0:3, 0:3]
        g.eq('rotation orthonormal' + z, S.mm(R.T, R), S.eye(3, R), tol=5e-6)
        g.eq('det = 1' + z, S.det3(R), 1 + 0 * pa[0], tol=5e-6)
        d = [pb[k] - pa[k] for k in range(3)]
        n = S.norm(d)
        g.eq('local z axis = unit vector from a to b' + z, R[:, 2], S.arr([d[k] / n for k in range(3)]), tol=1e-8)


@register
class Helper_distance(H):
    """distance is a metric on positions: non-negative, symmetric, zero iff equal, triangle inequality"""
    target = FSR + ':distance'
    timeout = 60.0

    def run(self, g, fn, args, kwargs):
        a, pa = pos_tm(g, 'a')
        b, pb = pos_tm(g, 'b')
        c, pc = pos_tm(g, 'c')
        return dict(ab=fn(a, b), ba=fn(b, a), bc=fn(b, c), ac=fn(a, c), aa=fn(a, a)), pa, pb, pc

    def post(self, g, out, args, kwargs):
        d, pa, pb, pc = out
        g.eq('d(a,b) = Euclidean distance', d['ab'], S.norm([pb[k] - pa[k] for k in range(3)]))
        g.le('d >= 0', 0 * d['ab'], d['ab'])
        g.eq('symmetric', d['ab'], d['ba'])
        g.eq('d(a,a) = 0', d['aa'], 0 * d['ab'])
        if g.symbolic:
            same = T.sand(*[T.eq(pa[k], pb[k]) for k in range(3)])
            g.holds('d(a,b) = 0 => a = b', T.implies(T.eq(d['ab'], 0), same))
        if g.symbolic:
            # Cauchy-Schwarz through Lagrange's identity, in three small steps
            u = [pb[k] - pa[k] for k in range(3)]
            v = [pc[k] - pb[k] for k in range(3)]
            uv = S.dotv(u, v)
            cr = S.cross3(u, v)
            su, sv = d['ab'], d['bc']
            g.lemma('Lagrange: |u|^2 |v|^2 - (u.v)^2 = |u x v|^2', T.eq(su * su * sv * sv - uv * uv, S.dotv(cr, cr)))
            X = su * sv
            g.lemma('(u.v)^2 <= (|u||v|)^2', T.le(uv * uv, X * X))
            g.instance('0 <= y and x^2 <= y^2 => x <= y',
                       lambda x, y: T.implies(T.sand(T.le(0, y), T.le(x * x, y * y)), T.le(x, y)), uv, X)
            g.lemma('Cauchy-Schwarz: u.v <= |u| |v|', T.le(uv, X))
            g.lemma('d(a,c)^2 = |u|^2 + 2 u.v + |v|^2', T.eq(d['ac'] * d['ac'], su * su + 2 * uv + sv * sv))
            g.lemma('d(a,c)^2 <= (d(a,b) + d(b,c))^2', T.le(d['ac'] * d['ac'], (su + sv) * (su + sv)))
            g.instance('0 <= x, 0 <= y and x^2 <= y^2 => x <= y',
                       lambda x, y: T.implies(T.sand(T.le(0, x), T.le(0, y), T.le(x * x, y * y)), T.le(x, y)), d['ac'], su + sv)
        g.le('triangle inequality d(a,c) <= d(a,b) + d(b,c)', d['ac'], d['ab'] + d['bc'])


@register
class Helper_arcDistance(H):
    """arcDistance(a, b) = norm of the six-vector of the relative pose inv(a) b"""
    target = FSR + ':arcDistance'
    under_contract = (BH + ':globalToLocal',)

    def run(self, g, fn, args, kwargs):
        a, Ma = frame(g, 'a')
        b, Mb = frame(g, 'b')
        rel = g.module(BH).globalToLocal(a, b)
        return fn(a, b), rel, Ma, Mb

    def post(self, g, out, args, kwargs):
        d, rel, Ma, Mb = out
        d = _np.asarray(d, dtype=object).reshape(-1)[0] if g.symbolic else float(_np.asarray(d).reshape(-1)[0])
        v = rel.gTAA().reshape(-1)
        g.eq('arcDistance = |six-vector of the relative pose|', d, S.norm(list(v)))
        g.le('arcDistance >= 0', 0 * d, d)
        relM = S.mm(S.inv_SE3(Ma), Mb)
        g.eq('relative pose translation = R_a^T (p_b - p_a)' + zone(g), S.arr([v[0], v[1], v[2]]), relM[0:3, 3])
        if g.symbolic:
            ok = stubs.is_log_of(g.ctx, g.alg, relM[0:3, 0:3], S.arr([v[3], v[4], v[5]]))
            g.holds('relative pose rotation vector = log(R_a^T R_b)' + zone(g), ok)


@register
class Helper_closeLinearGap(H):
    """closeLinearGap(o, goal, delta): six-vector moves from o's by exactly delta (Euclidean norm of the six-vector
    difference) along goal - o"""
    target = FSR + ':closeLinearGap'

    def run(self, g, fn, args, kwargs):
        tm = g.module(TMM).tm
        xo = g.reals('o', 6, scale=2.0)
        xg = g.reals('g', 6, scale=2.0)
        delta = g.real('d', lo=1e-3, hi=1.0)
        n2 = S.dotv([xg[k] - xo[k] for k in range(6)], [xg[k] - xo[k] for k in range(6)])
        g.require(n2 > 1e-4)
        return fn(tm(list(xo)), tm(list(xg)), delta), xo, xg, delta

    def post(self, g, out, args, kwargs):
        r, xo, xg, delta = out
        v = r.gTAA().reshape(-1)
        step = [v[k] - xo[k] for k in range(6)]
        g.eq('|step| = delta', S.norm(step), delta)
        gap = [xg[k] - xo[k] for k in range(6)]
        n = S.norm(gap)
        g.eq('step is along goal - origin', S.arr(step), S.arr([gap[k] * delta / n for k in range(6)]))


class _IKPath(H):
    steps = 3
    target = FSR + ':IKPath'

    def run(self, g, fn, args, kwargs):
        tm = g.module(TMM).tm
        xo = g.reals('o', 6, scale=2.0)
        xg = g.reals('g', 6, scale=2.0)
        return fn(tm(list(xo)), tm(list(xg)), self.steps), xo, xg

    def post(self, g, out, args, kwargs):
        path, xo, xg = out
        n = self.steps
        g.holds('path has the requested number of poses', len(path) == n)
        if len(path) != n:
            return
        g.eq('first pose = start', path[0].gTAA().reshape(-1), S.arr(xo))
        g.eq('last pose = goal', path[-1].gTAA().reshape(-1), S.arr(xg))
        for i in range(n - 1):
            diff = path[i + 1].gTAA().reshape(-1) - path[i].gTAA().reshape(-1)
            g.eq('consecutive difference %d = (goal - start)/(steps - 1)' % i, diff, (S.arr(xg) - S.arr(xo)) / (n - 1))


for _n in (2, 3, 5, 9):
    register(type('Helper_IKPath_%d' % _n, (_IKPath,), dict(steps=_n, shape_bound='steps = %d' % _n,
                                                            __doc__='IKPath with %d steps: evenly spaced from start to goal' % _n)))


@register
class Helper_twistToGoal(H):
    """twistToGoal(start, goal): the returned twist is log6 of goal inv(start), so exp6(twist) start = goal"""
    target = FSR + ':twistToGoal'
    under_contract = (FSR + ':twistFromTransform',)

    def run(self, g, fn, args, kwargs):
        s, Ms = frame(g, 's')
        e, Me = frame(g, 'e')
        tw = fn(s, e)
        return tw, Ms, Me

    def post(self, g, out, args, kwargs):
        tw, Ms, Me = out
        if g.symbolic:
            gh = stubs.ghost_of(g.ctx)
            X = S.mm(Me, S.inv_SE3(Ms))
            L = S.hat6(list(tw.reshape(-1)))
            ok = any(stubs._same(g.alg, stubs._cells(L), L0) and stubs._same(g.alg, stubs._cells(X), T0) for T0, L0 in gh.log6)
            g.holds('twist = vee(MatrixLog6(goal inv(start)))  [so exp6(twist) start = goal by the C01 contract]', ok)
            g.eq('(goal inv(start)) start = goal', S.mm(X, Ms), Me)
        else:
            mr = g.module(MR)
            E = mr.MatrixExp6(mr.VecTose3(_np.array(tw, dtype=float).reshape(-1)))
            g.eq('exp6(twist) start = goal', E @ Ms, Me, tol=5e-6)


class _Sphere(H):
    n = 5
    which = 'fiboSphere'

    def run(self, g, fn, args, kwargs):
        g.real('dummy', lo=0, hi=1)
        return getattr(g.module(FSR), self.which)(self.n)

    def post(self, g, out, args, kwargs):
        pts = out
        g.holds('returns rows of 3', pts.shape[1] == 3 and pts.shape[0] >= 1)
        for i in range(pts.shape[0]):
            g.eq('row %d has unit norm' % i, pts[i, 0] * pts[i, 0] + pts[i, 1] * pts[i, 1] + pts[i, 2] * pts[i, 2], 1 + 0 * pts[i, 0])


for _w in ('fiboSphere', 'unitSphere'):
    for _n in (1, 2, 7, 16):
        register(type('Helper_%s_%d' % (_w, _n), (_Sphere,), dict(n=_n, which=_w, target=FSR + ':' + _w,
                                                                    shape_bound='num_points = %d' % _n,
                                                                    __doc__='%s(%d): every returned vector has unit norm' % (_w, _n))))


def mod2pi_spec(x, pi):
    """x wrapped as the library documents it: unchanged when |x| <= 2 pi, else x - 2 pi floor(x / (2 pi))"""
    if abs(x) > 2 * pi:
        k = (x / (2 * pi)).floor() if isinstance(x, T.SR) else math.floor(x / (2 * pi))
        return x - 2 * pi * k
    return x


@register
class Helper_angleMod_scalar(H):
    """fsr.angleMod(x) for a scalar: same angle modulo 2 pi, magnitude at most 2 pi"""
    target = BH + ':angleMod'

    def run(self, g, fn, args, kwargs):
        x = g.real('x', lo=-50.0, hi=50.0)
        return fn(x), x

    def post(self, g, out, args, kwargs):
        r, x = out
        pi = S.pi_of(x)
        g.eq('angleMod(x) = x - 2 pi k (k integer)', r, mod2pi_spec(x, pi))
        g.le('|angleMod(x)| <= 2 pi', abs(r), 2 * pi)


@register
class Helper_angleMod_vector6(H):
    """fsr.angleMod on a 6-vector wraps the three rotation entries"""
    target = BH + ':angleMod'

    def run(self, g, fn, args, kwargs):
        x = g.reals('x', 6, lo=-50.0, hi=50.0)
        return fn(g.arr(x)), x

    def post(self, g, out, args, kwargs):
        r, x = out
        pi = S.pi_of(x)
        for i in range(3):
            g.eq('position entry %d untouched' % i, r[i], x[i])
        for i in range(3, 6):
            g.eq('entry %d same angle modulo 2 pi' % i, r[i], mod2pi_spec(x[i], pi))


@register
class Helper_tm_angleMod(H):
    """tm.angleMod(): rotation entries keep their angle modulo 2 pi"""
    target = TMM + ':tm.angleMod'

    def run(self, g, fn, args, kwargs):
        x = g.reals('x', 6, lo=-50.0, hi=50.0)
        t = g.module(TMM).tm(list(x))
        t.angleMod()
        return t, x

    def post(self, g, out, args, kwargs):
        t, x = out
        pi = S.pi_of(x)
        v = t.gTAA().reshape(-1)
        for i in range(3, 6):
            g.eq('entry %d same angle modulo 2 pi' % i, v[i], mod2pi_spec(x[i], pi))


@register
class Helper_mr_AngleMod(H):
    """mr.AngleMod on an array: each entry keeps its angle modulo 2 pi"""
    target = MR + ':AngleMod'

    def run(self, g, fn, args, kwargs):
        x = g.reals('x', 3, lo=-50.0, hi=50.0)
        return fn(g.arr(x)), x

    def post(self, g, out, args, kwargs):
        r, x = out
        pi = S.pi_of(x)
        for i in range(3):
            g.eq('entry %d same angle modulo 2 pi' % i, r[i], mod2pi_spec(x[i], pi))


class _ChainJac(H):
    n = 2
    target = FSR + ':chainJacobian'
    under_contract = (FSR + ':transformFromTwist', TMM + ':tm.adjoint')
    max_paths = 300

    def run(self, g, fn, args, kwargs):
        n = self.n
        cols = []
        for i in range(n):
            w = g.unit('w%d_' % i, 3)
            v = g.reals('v%d_' % i, 3, scale=2.0)
            cols.append(list(w) + list(v))
        Sl = g.arr([[cols[j][k] for j in range(n)] for k in range(6)])
        th = g.reals('t', n, lo=0.01, hi=3.0)
        return fn(Sl, g.arr(th)), Sl, th

    def post(self, g, out, args, kwargs):
        J, Sl, th = out
        n = self.n
        z = zone(g)
        g.eq('first column = first screw', J[:, 0], Sl[:, 0])
        Tm = S.eye(4, Sl)
        for i in range(1, n):
            col = S.arr([Sl[k][i - 1] * th[i - 1] for k in range(6)])
            Tm = S.mm(Tm, S.Exp6(col))
            g.eq('column %d = Ad(prod exp) S_%d  (space Jacobian)' % (i, i) + z, J[:, i], S.mm(S.Ad(Tm), Sl[:, i]))


for _n in (1, 2, 3):
    register(type('Helper_chainJacobian_%d' % _n, (_ChainJac,), dict(n=_n, shape_bound='%d joints, unit rotation axes' % _n,
                                                                       __doc__='chainJacobian = analytic space Jacobian, %d joints' % _n)))


@register
class Helper_closeArcGap(H):
    """closeArcGap(o, goal, delta) = o * T(delta * u), u the unit six-vector along goal - o: the step has exactly the
    requested size whatever the remaining gap (also when the gap is smaller than the step)"""
    target = FSR + ':closeArcGap'
    under_contract = (BH + ':TAAtoTM',)

    def run(self, g, fn, args, kwargs):
        tm = g.module(TMM).tm
        xo = g.reals('o', 6, scale=2.0)
        w = g.reals('w', 6, scale=0.5)
        s = g.real('s', lo=0.01, hi=2.0)          # goal = origin + s w: gaps both larger and smaller than the step
        xg = [xo[k] + s * w[k] for k in range(6)]
        delta = g.real('d', lo=1e-3, hi=1.0)
        gap = [xg[k] - xo[k] for k in range(6)]
        n2 = S.dotv(gap, gap)
        g.require(n2 > 1e-6)
        o = tm(list(xo))
        return fn(o, tm(list(xg)), delta), o, gap, delta

    def post(self, g, out, args, kwargs):
        r, o, gap, delta = out
        n = S.norm(gap)
        step = [gap[k] * delta / n for k in range(6)]
        if g.symbolic:
            mr = g.module(MR)
            Rs = mr.MatrixExp3(mr.VecToso3(npx.array(step[3:6], dtype=float)))      # the L0 contract's result for this argument
        else:
            Rs = S.ExpLib3(step[3:6])
        Ts = S.RpT(Rs, step[0:3])
        g.eq('closeArcGap = origin * T(delta * unit six-vector of the gap)', r.gTM(), S.mm(o.gTM(), Ts), tol=None if g.symbolic else 5e-6)


class _IKPathCount(H):
    """bounded native stand-in (probes): IKPath returns exactly `steps` poses for every step count 2..200 -- the count
    depends on floating-point rounding of the step arithmetic, which the real-number model cannot see"""
    target = FSR + ':IKPath'
    probes = [dict(steps=float(k)) for k in range(2, 201)]
    shape_bound = 'probes: steps = 2..200 on the native code; the symbolic run uses steps = 4'

    def run(self, g, fn, args, kwargs):
        tm = g.module(TMM).tm
        steps = 4 if g.mode != 'concrete' else int(g.real('steps', lo=2.0, hi=200.0))
        if g.mode != 'concrete':
            g.real('steps', lo=2.0, hi=200.0)
        a = tm([0.1, 0.2, 0.3, 0.1, 0.2, 0.3])
        b = tm([1.1, -0.7, 0.9, 0.4, -0.1, 0.2])
        return fn(a, b, steps), steps

    def post(self, g, out, args, kwargs):
        path, steps = out
        g.holds('IKPath returns exactly the requested number of poses (steps = %d)' % steps, len(path) == steps)


register(type('Helper_IKPath_count_probes', (_IKPathCount,), dict()))
