"""C20 -- disp never fails and shows every element it was given.

Faithfulness is decided on the property's own finite shape set (every shape with extents 0..4 and 1..4 axes, decimals
0..8): the array cells are distinct symbols with |x| < 9999, number formatting is an opaque token (A9:
str.format renders the correctly rounded decimal), and the sequence of tokens in the returned string must be the
cells in row-major order with the format `{nd+6}.{nd}f`.  Totality is checked on an enumerated family of inputs
(special values are concrete).  Printing is observed through the rebound `print` (rewrite T4).
"""
import re
import itertools
import math
import numpy as _np
from pyvc.contract import Contract, register
from pyvc import terms as T
from pyvc import npx, stubs
from pyvc import builtinsx

DISP = 'basic_robotics.utilities.disp'
TOK = re.compile('⟦(\\d+)\\|([^⟧]*)⟧')


def shapes(max_axes=4, max_extent=4):
    out = []
    for k in range(1, max_axes + 1):
        out += list(itertools.product(range(0, max_extent + 1), repeat=k))
    return out


@register
class Disp_faithful(Contract):
    """for every shape with extents 0..4 and 1..4 axes and every nd in 0..8: the returned string contains every element
    exactly once, in row-major order, formatted with `nd` decimals in a field of nd+6; it is what is printed unless
    noprint is set"""
    prop = 'C20'
    target = DISP + ':disp'
    under_contract = (DISP + ':dispa',)
    replayable = False
    n_samples = 2
    shape_bound = 'all 780 shapes with extents 0..4 and 1..4 axes x decimals 0..8 (the property\'s own shape set); |x| < 9999'

    def setup(self, g):
        g.real('unused', lo=0.0, hi=1.0)
        return (), {}

    def run(self, g, fn, args, kwargs):
        if not g.symbolic:
            raise NotImplementedError
        bad = []
        n = 0
        pool = [T.SR.var('x%d' % i) for i in range(256)]
        for x in pool:
            g.ctx.assume(T.lt(abs(x), 9999), tag='|x| < 9999')
        for shp in shapes():
            size = int(_np.prod(shp)) if shp else 1
            a = _np.empty(shp, dtype=object)
            flat = a.reshape(-1)
            for i in range(size):
                flat[i] = pool[i]
            a = a.view(npx.SArr)
            want_ids = [pool[i].id for i in range(size)]
            for nd in range(0, 9):
                n += 1
                del builtinsx.PRINTED[:]
                try:
                    s = fn(a, 'T', nd)
                except Exception as e:
                    bad.append((shp, nd, 'raised %s: %s' % (type(e).__name__, str(e)[:60])))
                    continue
                if not isinstance(s, str):
                    bad.append((shp, nd, 'did not return a string'))
                    continue
                toks = TOK.findall(s)
                ids = [int(i) for i, _ in toks]
                spec = '%d.%df' % (nd + 6, nd)
                if ids != want_ids:
                    bad.append((shp, nd, 'elements shown %d, expected %d in row-major order' % (len(ids), len(want_ids))))
                elif any(sp != spec for _, sp in toks):
                    bad.append((shp, nd, 'format %s instead of %s' % (set(sp for _, sp in toks), spec)))
                elif builtinsx.PRINTED != [s + '\n']:
                    bad.append((shp, nd, 'printed text differs from the returned string'))
            # noprint
            del builtinsx.PRINTED[:]
            try:
                fn(a, 'T', 3, 0, True, True)
                if builtinsx.PRINTED:
                    bad.append((shp, 3, 'noprint=True still printed'))
            except Exception as e:
                bad.append((shp, 3, 'noprint call raised %s' % type(e).__name__))
        return n, bad

    def post(self, g, out, args, kwargs):
        n, bad = out
        g.holds('%d (shape, decimals) cases enumerated' % n, n == 780 * 9)
        g.holds('every element shown exactly once, in row-major order, with the requested decimals, and printed'
                + ('' if not bad else ' (first failing case: shape %s, nd %s: %s; %d failing cases)' % (bad[0] + (len(bad),))), not bad)


@register
class Disp_total(Contract):
    """disp returns a string and raises nothing for scalars, strings, None, nested lists/tuples, transforms, wrenches, lists
    of either, and numeric arrays of 0..5 dimensions including empty, huge, infinite and NaN entries, bool/int dtypes,
    titles of even and odd length, and the LaTeX mode for 2-D matrices"""
    prop = 'C20'
    target = DISP + ':disp'
    under_contract = (DISP + ':dispa', DISP + ':disptex', DISP + ':printTFlist')
    replayable = False
    n_samples = 2

    def prepare(self):
        stubs.install()

    def setup(self, g):
        g.real('unused', lo=0.0, hi=1.0)
        return (), {}

    def run(self, g, fn, args, kwargs):
        tm = g.module('basic_robotics.general.faser_transform').tm
        Wrench = g.module('basic_robotics.general.faser_wrench').Wrench
        import numpy as np
        specials = [0.0, -1.5, 12345.678, -9999.0, 1e12, float('inf'), float('-inf'), float('nan')]
        cases = [('None', None), ('str', 'hello'), ('int', 3), ('float', 2.5), ('bool', True), ('empty list', []),
                 ('list', [1, 2.5, 3]), ('nested list', [[1, 2], [3, [4, 5]]]), ('tuple', (1, (2, 3))),
                 ('tm', tm()), ('list of tm', [tm(), tm()]), ('wrench', Wrench()), ('list of wrench', [Wrench(), Wrench()]),
                 ('mixed list', [tm(), 3, 'x'])]
        for k in range(0, 6):
            for ext in (0, 1, 2):
                shp = (ext,) * k
                cases.append(('float array %s' % (shp,), np.arange(int(np.prod(shp)) if shp else 1, dtype=float).reshape(shp) * 1.25))
        cases.append(('int array', np.arange(6).reshape(2, 3)))
        cases.append(('bool array', np.array([[True, False], [False, True]])))
        for row_len in range(0, 5):
            for combo in itertools.islice(itertools.product(specials, repeat=row_len), 0, 400):
                cases.append(('row %s' % (combo,), np.array(combo, dtype=float)))
        cases.append(('2-D specials', np.array([[1e12, float('inf')], [float('nan'), -12345.6]])))
        out = []
        for name, obj in cases:
            for title in ('MATRIX', 'odd', 'even'):
                for nd in (0, 3, 8):
                    try:
                        del builtinsx.PRINTED[:]
                        s = fn(obj, title, nd)
                        ok = isinstance(s, str) and builtinsx.PRINTED == [s + '\n']
                        out.append((name, title, nd, 'ok' if ok else 'not a string / not printed verbatim'))
                    except Exception as e:
                        out.append((name, title, nd, 'raised %s: %s' % (type(e).__name__, str(e)[:80])))
        for name, obj in (('latex 2x3', np.arange(6, dtype=float).reshape(2, 3) * 1.5), ('latex 1x1', np.array([[2.0]])),
                          ('latex specials', np.array([[float('inf'), float('nan')], [1e12, -0.5]]))):
            for nd in (0, 2, 8):
                try:
                    s = fn(obj, 'cap', nd, 1)
                    vals = [str(round(float(x), nd)) for x in obj.reshape(-1)]
                    pos, good = 0, True
                    for v in vals:
                        p = s.find(v, pos)
                        if p < 0:
                            good = False
                            break
                        pos = p + len(v)
                    out.append((name, 'cap', nd, 'ok' if (isinstance(s, str) and good) else 'rounded elements missing or out of order'))
                except Exception as e:
                    out.append((name, 'cap', nd, 'raised %s: %s' % (type(e).__name__, str(e)[:80])))
        return out

    def post(self, g, out, args, kwargs):
        bad = [o for o in out if o[3] != 'ok']
        g.holds('%d inputs enumerated' % len(out), len(out) > 100)
        g.holds('disp returns the printed string and raises nothing'
                + ('' if not bad else ' (first failing input: %s, title %r, nd %d: %s; %d failing)' % (bad[0] + (len(bad),))), not bad)


@register
class Disp_values_roundtrip(Contract):
    """the numbers parsed back from the rendered rows equal the elements rounded to `nd` decimals (within half a unit in the
    last place), for a palette of magnitudes from 4e-9 to 9998.9 of both signs, shapes of 1 to 3 axes, nd 0..8 -- concrete
    values through the executed source: complements the token abstraction of Disp_faithful, which cannot see digits"""
    prop = 'C20'
    target = DISP + ':dispa'
    replayable = False
    n_samples = 2
    shape_bound = 'palette of 22 magnitudes x 2 signs; shapes (n,), (2,n), (2,2,n); nd 0..8'

    def setup(self, g):
        g.real('unused', lo=0.0, hi=1.0)
        return (), {}

    def run(self, g, fn, args, kwargs):
        import numpy as np
        mags = [0.0, 4e-9, 6e-9, 4e-7, 7e-7, 4e-5, 7e-5, 0.0004, 0.0007, 0.004, 0.006, 0.04, 0.07, 0.4, 0.8, 1.5, 2.25, 12.345678912,
                123.456, 999.5, 9998.9, 0.5]
        pal = []
        for m in mags:
            pal += [m, -m]
        pal = np.array(pal)
        num = re.compile(r'-?\d+\.?\d*(?:[eE][-+]?\d+)?')
        bad = []
        n = 0
        for nd in range(0, 9):
            for arr in (pal, np.stack([pal, pal[::-1]]), np.stack([np.stack([pal, pal[::-1]]), np.stack([pal * 0.5, pal])])):
                n += 1
                try:
                    s = fn(arr, 'MATRIX', nd)
                except Exception as e:
                    bad.append((arr.shape, nd, 'raised %s' % type(e).__name__))
                    continue
                got = []
                for ln in s.split('\n'):
                    m = re.match(r'^[^║╔╚]*[║╔╚] (.*) [║╗╝]$', ln)
                    if m and ',' in m.group(1) or (m and num.fullmatch(m.group(1).strip())):
                        got += [float(x) for x in m.group(1).split(',') if x.strip()]
                want = [round(float(x), nd) for x in arr.reshape(-1)]
                if len(got) != len(want):
                    bad.append((arr.shape, nd, 'parsed %d numbers, expected %d' % (len(got), len(want))))
                    continue
                for a, b, x in zip(got, want, arr.reshape(-1)):
                    if abs(a - b) > 0.5 * 10 ** (-nd) + 1e-12:
                        bad.append((arr.shape, nd, 'element %r shown as %r, expected %r' % (float(x), a, b)))
                        break
        return n, bad

    def post(self, g, out, args, kwargs):
        n, bad = out
        g.holds('%d (array, decimals) cases rendered and parsed back' % n, n == 27)
        g.holds('every rendered number equals the element rounded to nd decimals'
                + ('' if not bad else ' (first failing case: shape %s, nd %s: %s; %d failing)' % (bad[0] + (len(bad),))), not bad)
