"""L2 contracts: Screw / Wrench frame changes and vector-space laws (property C12).

Functional contracts of the two changeFrame methods are proved against the real code (through the L0
contracts of exp/log, including the round-trip lemmas of C01).  The group-action statements of the
property (A->B->A = id, A->B->C = A->C, power invariance) are lemmas over those contracts, proved on the
spec formulas.  Vector-space laws are checked on the real operator overloads for every operand kind.
"""
import numpy as _np
from pyvc.contract import Contract, register
from pyvc import spec as S
from pyvc import terms as T
from pyvc import stubs, npx
from .l1_tm import TMM, BH, MR

SCR = 'basic_robotics.general.faser_screw'
WR = 'basic_robotics.general.faser_wrench'
FSR = 'basic_robotics.general.faser_general'

CUT = ' [near-equal frames: a frame conversion fell inside the 1e-6 cut-off of the exponential or the 1e-8 equality shortcut]'


def frame(g, name, pscale=3.0):
    """an arbitrary frame in SE(3), built from its matrix (unit quaternion ghost)"""
    q = g.unit(name + 'q', 4)
    p = g.reals(name + 'p', 3, scale=pscale)
    M = S.RpT(S.Rq(q), p)
    return g.module(TMM).tm(M), M


def frame_E(g, name, pscale=3.0):
    """an arbitrary frame given by its six-vector (so that near-equal frames are directly expressible on inputs)"""
    x = g.reals(name + 'x', 6, scale=pscale)
    t = g.module(TMM).tm([x[0], x[1], x[2], x[3], x[4], x[5]])
    return t, t.gTM()


def near_equal(g, A, B):
    """input-class predicate of finding F22: all six entries of the two frames' six-vectors within 1e-8
    (decided on the inputs, independently of what the code does)"""
    if not g.symbolic:
        return False
    a, b = A.gTAA().reshape(-1), B.gTAA().reshape(-1)
    return bool(T.sand(*[T.le(abs(a[i] - b[i]), 1e-8) for i in range(6)]))      # one decision


def _is_early(obj, MB):
    """did changeFrame take its `old == new` shortcut?  (the recorded frame is then not the new one)"""
    M = obj.frame_applied.TM
    return any(M[i, j] is not MB[i, j] for i in range(3) for j in range(4))


def cut_suffix(g, shortcut=False):
    if g.symbolic and (stubs.ghost_of(g.ctx).cutoff_hits or shortcut):
        return CUT
    return ''


class L2(Contract):
    prop = 'C12'
    tol = 1e-8
    max_paths = 200

    def prepare(self):
        stubs.install()

    def setup(self, g):
        return (), {}


@register
class Screw_changeFrame(L2):
    """Screw.changeFrame(new): data' = Ad(inv(new) old) data, the object records a copy of the new frame"""
    target = SCR + ':Screw.changeFrame'
    under_contract = (BH + ':globalToLocal', MR + ':GlobalToLocal', MR + ':Adjoint', TMM + ':tm.adjoint')

    def run(self, g, fn, args, kwargs):
        A, MA = frame(g, 'A')
        B, MB = frame(g, 'B')
        d = g.arr(g.reals('d', 6)).reshape((6, 1))
        given = d.copy()
        s = g.module(SCR).Screw(given, A)
        r = s.changeFrame(B)
        return s, r, d, MA, MB, B, given, A

    def post(self, g, out, args, kwargs):
        s, r, d, MA, MB, B, given, A = out
        # `old == new` (all six TAA entries within 1e-8) makes changeFrame return early without recording the frame
        sfx = cut_suffix(g, shortcut=near_equal(g, A, B))
        g.holds('changeFrame returns its receiver', r is s)
        g.eq('the array handed to the constructor is not written by changeFrame', given, d)
        want = S.mm(S.Ad(S.mm(S.inv_SE3(MB), MA)), d)
        g.eq('data = Ad(inv(new) old) data' + sfx, s.data, want)
        g.eq('frame recorded = new frame' + sfx, s.frame_applied.gTM(), MB)
        g.holds('recorded frame is not the argument object', s.frame_applied is not B)


@register
class Wrench_changeFrame(L2):
    """Wrench.changeFrame(new): data' = Ad(inv(old) new)^T data, the object records a copy of the new frame"""
    target = WR + ':Wrench.changeFrame'
    under_contract = (BH + ':globalToLocal', MR + ':GlobalToLocal', MR + ':Adjoint')

    def run(self, g, fn, args, kwargs):
        A, MA = frame(g, 'A')
        B, MB = frame(g, 'B')
        d = g.arr(g.reals('d', 6)).reshape((6, 1))
        given = d.copy()
        w = g.module(WR).Wrench(given, None, A)
        r = w.changeFrame(B)
        return w, r, d, MA, MB, B, given, A

    def post(self, g, out, args, kwargs):
        w, r, d, MA, MB, B, given, A = out
        sfx = cut_suffix(g, shortcut=near_equal(g, A, B))
        g.holds('changeFrame returns its receiver', r is w)
        g.eq('the array handed to the constructor is not written by changeFrame', given, d)
        want = S.mm(S.Ad(S.mm(S.inv_SE3(MA), MB)).T, d)
        g.eq('data = Ad(inv(old) new)^T data' + sfx, w.data, want)
        g.eq('frame recorded = new frame' + sfx, w.frame_applied.gTM(), MB)
        g.holds('recorded frame is not the argument object', w.frame_applied is not B)


@register
class Screw_changeFrame_explicit_old(L2):
    """Screw.changeFrame(new, old) with an explicit old frame (different from the recorded one):
    data' = Ad(inv(new) old) data"""
    target = SCR + ':Screw.changeFrame'

    def run(self, g, fn, args, kwargs):
        A, MA = frame(g, 'A')
        B, MB = frame(g, 'B')
        C, MC = frame(g, 'C')
        d = g.arr(g.reals('d', 6)).reshape((6, 1))
        s = g.module(SCR).Screw(d.copy(), C)
        s.changeFrame(B, A)
        return s, d, MA, MB, A, B

    def post(self, g, out, args, kwargs):
        s, d, MA, MB, A, B = out
        sfx = cut_suffix(g, shortcut=near_equal(g, A, B))
        g.eq('data = Ad(inv(new) old) data for the explicit old frame' + sfx, s.data, S.mm(S.Ad(S.mm(S.inv_SE3(MB), MA)), d))
        g.eq('frame recorded = new frame' + sfx, s.frame_applied.gTM(), MB)


@register
class Wrench_changeFrame_explicit_old(L2):
    """Wrench.changeFrame(new, old) with an explicit old frame: data' = Ad(inv(old) new)^T data"""
    target = WR + ':Wrench.changeFrame'

    def run(self, g, fn, args, kwargs):
        A, MA = frame(g, 'A')
        B, MB = frame(g, 'B')
        C, MC = frame(g, 'C')
        d = g.arr(g.reals('d', 6)).reshape((6, 1))
        w = g.module(WR).Wrench(d.copy(), None, C)
        w.changeFrame(B, A)
        return w, d, MA, MB, A, B

    def post(self, g, out, args, kwargs):
        w, d, MA, MB, A, B = out
        sfx = cut_suffix(g, shortcut=near_equal(g, A, B))
        g.eq('data = Ad(inv(old) new)^T data for the explicit old frame' + sfx, w.data, S.mm(S.Ad(S.mm(S.inv_SE3(MA), MB)).T, d))
        g.eq('frame recorded = new frame' + sfx, w.frame_applied.gTM(), MB)


@register
class Lemma_group_action(Contract):
    """lemmas over the changeFrame contracts (spec algebra, all frames A, B, C in SE(3), all 6-vectors):
    A->B->A = id, A->B->C = A->C for screws and wrenches, and wrench . twist is frame-independent"""
    prop = 'C12'
    target = None
    under_contract = ()

    def setup(self, g):
        return (), {}

    def run(self, g, fn, args, kwargs):
        return None

    def post(self, g, out, args, kwargs):
        Ms = []
        for n in 'ABC':
            q = g.unit(n + 'q', 4)
            p = g.reals(n + 'p', 3, scale=3.0)
            Ms.append(S.RpT(S.Rq(q), p))
        MA, MB, MC = Ms
        V = g.arr(g.reals('V', 6)).reshape((6, 1))
        F = g.arr(g.reals('F', 6)).reshape((6, 1))

        def s_step(Mold, Mnew, x):
            return S.mm(S.Ad(S.mm(S.inv_SE3(Mnew), Mold)), x)

        def w_step(Mold, Mnew, x):
            return S.mm(S.Ad(S.mm(S.inv_SE3(Mold), Mnew)).T, x)
        g.eq('screw A->B->A = id', s_step(MB, MA, s_step(MA, MB, V)), V)
        g.eq('screw A->B->C = A->C', s_step(MB, MC, s_step(MA, MB, V)), s_step(MA, MC, V))
        g.eq('wrench A->B->A = id', w_step(MB, MA, w_step(MA, MB, F)), F)
        g.eq('wrench A->B->C = A->C', w_step(MB, MC, w_step(MA, MB, F)), w_step(MA, MC, F))
        FB, VB = w_step(MA, MB, F), s_step(MA, MB, V)
        g.eq('power F.V is the same in every frame', S.mm(FB.T, VB), S.mm(F.T, V))


@register
class Wrench_force_at_point(L2):
    """Wrench(force, point): moment p x f about the frame origin, zero moment about the point of application"""
    target = WR + ':Wrench.__init__'
    under_contract = (WR + ':Wrench.changeFrame', WR + ':Wrench.getMoment', WR + ':Wrench.getForce')

    def run(self, g, fn, args, kwargs):
        tm = g.module(TMM).tm
        f = g.reals('f', 3)
        p = g.reals('p', 3, scale=3.0)
        z = 0 * f[0]
        P = tm([p[0], p[1], p[2], z, z, z])
        w = g.module(WR).Wrench(g.arr(f), P)
        m0 = w.getMoment().copy()
        f0 = w.getForce().copy()
        w2 = w.copy()
        w2.changeFrame(P)
        self.zone_in = near_equal(g, w.frame_applied, P)
        return f, p, m0, f0, w2

    def post(self, g, out, args, kwargs):
        f, p, m0, f0, w2 = out
        g.eq('moment = p x f', m0.reshape(-1), S.cross3(p, f))
        g.eq('force as given', f0.reshape(-1), g.arr(f))
        g.eq('zero moment about the point of application' + cut_suffix(g, self.zone_in), w2.getMoment().reshape(-1), 0 * g.arr(f))
        g.eq('force unchanged by a pure translation of the frame', w2.getForce().reshape(-1), g.arr(f))


class _SumAcross(L2):
    cls_mod = WR
    cls_name = 'Wrench'
    sign = 1
    fkind = 'L'

    def run(self, g, fn, args, kwargs):
        mk = frame if self.fkind == 'L' else frame_E
        A, MA = mk(g, 'A')
        B, MB = mk(g, 'B')
        da = g.arr(g.reals('d', 6)).reshape((6, 1))
        db = g.arr(g.reals('e', 6)).reshape((6, 1))
        C = getattr(g.module(self.cls_mod), self.cls_name)
        if self.cls_name == 'Wrench':
            a, b = C(da.copy(), None, A), C(db.copy(), None, B)
        else:
            a, b = C(da.copy(), A), C(db.copy(), B)
        r = (a + b) if self.sign > 0 else (a - b)
        return r, da, db, MA, MB, A, B

    def post(self, g, out, args, kwargs):
        r, da, db, MA, MB, A, B = out
        if self.cls_name == 'Wrench':
            b_in_a = S.mm(S.Ad(S.mm(S.inv_SE3(MB), MA)).T, db)
        else:
            b_in_a = S.mm(S.Ad(S.mm(S.inv_SE3(MA), MB)), db)
        want = da + b_in_a if self.sign > 0 else da - b_in_a
        g.eq('sum/difference taken in the left operand frame' + cut_suffix(g, near_equal(g, A, B)), r.data, want)
        g.eq('result frame = left operand frame', r.frame_applied.gTM(), MA)


@register
class Wrench_add_across(_SumAcross):
    """a + b for wrenches given in different frames = a + (b expressed in a's frame)"""
    target = WR + ':Wrench.__add__'


@register
class Wrench_sub_across(_SumAcross):
    """a - b for wrenches given in different frames"""
    target = WR + ':Wrench.__sub__'
    sign = -1


@register
class Screw_add_across(_SumAcross):
    """a + b for screws given in different frames"""
    target = SCR + ':Screw.__add__'
    cls_mod, cls_name = SCR, 'Screw'


@register
class Screw_sub_across(_SumAcross):
    """a - b for screws given in different frames"""
    target = SCR + ':Screw.__sub__'
    cls_mod, cls_name, sign = SCR, 'Screw', -1


for _c in (Wrench_add_across, Wrench_sub_across, Screw_add_across, Screw_sub_across):
    register(type(_c.__name__ + '_sixvec_frames', (_c,), dict(fkind='E', tier='quick' if _c is Screw_add_across else 'thorough',
                                                              __doc__=(_c.__doc__ or '') + ' (frames given by six-vectors)')))

# ---------------------------------------------------------------------------------------------------
# vector-space laws, per operand kind

def _payload(x):
    return x.data if hasattr(x, 'frame_applied') else x


class _VecLaws(L2):
    cls_mod = SCR
    cls_name = 'Screw'
    kind = 'scalar'
    max_paths = 64

    def run(self, g, fn, args, kwargs):
        C = getattr(g.module(self.cls_mod), self.cls_name)
        A, MA = frame(g, 'A')
        d = g.arr(g.reals('d', 6)).reshape((6, 1))
        a = C(d.copy(), None, A) if self.cls_name == 'Wrench' else C(d.copy(), A)
        k = g.real('k', lo=0.25, hi=4.0)
        if self.kind == 'scalar':
            s = g.real('s', scale=2.0)
            sv = s + 0 * d
        elif self.kind == 'arr6':
            s = g.arr(g.reals('s', 6))
            sv = s.reshape((6, 1))
        elif self.kind == 'arr61':
            s = g.arr(g.reals('s', 6)).reshape((6, 1))
            sv = s
        else:
            e = g.arr(g.reals('s', 6)).reshape((6, 1))
            s = C(e.copy(), None, A) if self.cls_name == 'Wrench' else C(e.copy(), A)
            sv = e
        out = {}
        out['(a+s)-s'] = _payload((a + s) - s)
        out['a-s'] = _payload(a - s)
        out['a+(-s)'] = _payload(a + (-1 * s if self.kind != 'object' else s * -1))
        if self.kind != 'object':
            out['s-a'] = _payload(s - a)
        else:
            out['s-a'] = _payload(s - a)
        out['(k*a)/k'] = _payload((a * k) / k)
        out['(k*a)/k r'] = _payload((k * a) / k)
        return out, d, sv

    def post(self, g, outs, args, kwargs):
        out, d, sv = outs
        g.eq('(a + s) - s = a', out['(a+s)-s'], d)
        g.eq('a - s = a + (-s)', out['a-s'], out['a+(-s)'])
        g.eq('a - s is the difference', out['a-s'], d - sv)
        g.eq('s - a = -(a - s)', out['s-a'], -(d - sv))
        g.eq('(a k) / k = a', out['(k*a)/k'], d)
        g.eq('(k a) / k = a', out['(k*a)/k r'], d)


for _cm, _cn in ((SCR, 'Screw'), (WR, 'Wrench')):
    for _kind in ('scalar', 'arr6', 'arr61', 'object'):
        register(type('%s_vector_laws_%s' % (_cn, _kind), (_VecLaws,), dict(
            cls_mod=_cm, cls_name=_cn, kind=_kind, target=_cm + ':' + _cn + '.__sub__',
            under_contract=(SCR + ':Screw.__add__', SCR + ':Screw.__sub__', SCR + ':Screw.__rsub__', SCR + ':Screw.__mul__',
                            SCR + ':Screw.__rmul__', SCR + ':Screw.__truediv__'),
            __doc__='vector-space laws of %s arithmetic with a %s right/left operand' % (_cn, _kind))))
