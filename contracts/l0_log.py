"""L0 contracts for the logarithms and the exp/log round trips (property C01)."""
import numpy as _np
from pyvc.contract import Contract, register
from pyvc import spec as S
from pyvc import terms as T
from .l0_mr import MR, _mr, se3_from


def rod_with_angle(v, th):
    """Rodrigues' formula for the rotation vector v whose norm is known to be th (a ghost angle)"""
    K = S.hat3(v)
    return S.eye(3, v) + (S.sin(th) / th) * K + ((1 - S.cos(th)) / (th * th)) * S.mm(K, K)


def half_turn_rules(g, q):
    """on the half-turn branch (trace = -1) the scalar part vanishes; both facts are derived (obligations)"""
    g.use_eq(q[0], 0, 'half turn: q0 = 0')
    g.use_sq(q[1], 1 - q[2] * q[2] - q[3] * q[3], 'half turn: q1^2 = 1 - q2^2 - q3^2')


def log3_post(g, R, q, res, label=''):
    """postcondition of MatrixLog3 on R = Rq(q), taken from the property: the result is skew and its
    exponential is R.  The exponential is stated through a ghost angle th with |v| = th, th in [0, pi]."""
    g.eq(label + 'log is skew', res + res.T, 0 * res)
    v = S.vee3(res)
    c = (R[0][0] + R[1][1] + R[2][2] - 1) / 2       # cos of the rotation angle, from R itself
    if c >= 1:
        # R = I (q0^2 >= 1 forces q_v = 0): the log must be 0
        g.eq(label + 'log(I) = 0', res, 0 * res)
        g.eq(label + 'R = I on this branch', R, S.eye(3, R))
        return 'identity'
    if c <= -1:
        # half turn: q0 = 0.  log = pi * w_hat with w_hat a unit axis and R = 2 w w^T - I  (= Rod at angle pi)
        if g.symbolic:
            half_turn_rules(g, q)
        pi = S.pi_of(R)
        w = [v[0] / pi, v[1] / pi, v[2] / pi]
        g.eq(label + 'half-turn axis is unit', S.dotv(w, w), 1 + 0 * v[0])
        wwT = S.arr([[w[i] * w[j] for j in range(3)] for i in range(3)])
        g.eq(label + 'R = 2 w w^T - I (Rodrigues at angle pi)', 2 * wwT - S.eye(3, R), R)
        return 'halfturn'
    th = S.arccos(c)
    g.eq(label + '|v|^2 = theta^2', S.dotv(v, v), th * th)
    g.holds(label + '0 < theta', 0 < th)
    g.holds(label + 'theta < pi', th < S.pi_of(R))
    g.eq(label + 'Rodrigues(v, theta) = R', rod_with_angle(v, th), R)
    return 'generic'


@register
class MatrixLog3_c(Contract):
    """MatrixLog3(R) for every R in SO(3) (R = Rq(q), |q| = 1): skew result whose exponential is R, on all
    five paths (identity, three half-turn sub-branches, generic); every denominator is non-zero."""
    prop = ('C01', 'C03', 'C04', 'C12', 'C18', 'C17')   # callee contracts the upper layers are verified against; every branch of the kernel is executed with NumPy's index checks (C17)
    target = MR + ':MatrixLog3'
    under_contract = (MR + ':SafeTrace', MR + ':SafeClip', MR + ':NearZero', MR + ':VecToso3')
    max_paths = 60

    def setup(self, g):
        self.q = g.unit('q', 4)
        self.R = S.Rq(self.q)
        return (self.R,), {}

    def post(self, g, res, args, kwargs):
        log3_post(g, self.R, self.q, res)


@register
class ExpLog3_c(Contract):
    """exp(log(R)) = R through the library's own MatrixExp3 for every R in SO(3): exact where the angle is
    outside the cut-off, to the property's 5e-6 inside it."""
    prop = ('C01', 'C03', 'C04', 'C12', 'C18', 'C17')   # callee contracts the upper layers are verified against; every branch of the kernel is executed with NumPy's index checks (C17)
    target = MR + ':MatrixLog3'
    under_contract = (MR + ':MatrixExp3',)
    max_paths = 80

    def setup(self, g):
        self.q = g.unit('q', 4)
        self.R = S.Rq(self.q)
        return (self.R,), {}

    def post(self, g, res, args, kwargs):
        R = self.R
        c = (R[0][0] + R[1][1] + R[2][2] - 1) / 2
        if g.symbolic and c <= -1:
            half_turn_rules(g, self.q)
        E = _mr(g).MatrixExp3(res)
        g.eq('MatrixExp3(MatrixLog3(R)) = R', E, R, tol=5e-6)


@register
class LogExp3_c(Contract):
    """log(exp(w)) = w for every rotation vector with |w| < pi (5e-6 inside the cut-off, exact outside)"""
    prop = ('C01', 'C03', 'C04', 'C12', 'C18', 'C17')   # callee contracts the upper layers are verified against; every branch of the kernel is executed with NumPy's index checks (C17)
    target = MR + ':MatrixExp3'
    under_contract = (MR + ':MatrixLog3', MR + ':so3ToVec', MR + ':VecToso3')
    max_paths = 80

    def setup(self, g):
        self.w = g.reals('w', 3, scale=1.2)
        th = S.norm(self.w)
        g.require(th < S.pi_of(self.w) if g.symbolic else th < 3.14159)
        return (S.hat3(self.w),), {}

    def post(self, g, R, args, kwargs):
        mr = _mr(g)
        L = mr.MatrixLog3(R)
        v = mr.so3ToVec(L)
        g.eq('so3ToVec(MatrixLog3(MatrixExp3(hat w))) = w', v, g.arr(self.w), tol=5e-6)


def log6_shape(g, L):
    g.eq('log6: rotation block skew', L[0:3, 0:3] + L[0:3, 0:3].T, 0 * L[0:3, 0:3])
    g.eq('log6: last row zero', L[3, :], 0 * L[3, :])


@register
class ExpLog6_c(Contract):
    """exp(log(T)) = T through the library's own MatrixLog6 / MatrixExp6, for every T in SE(3)
    (T = [[Rq(q), p],[0,1]]): exact outside the cut-off, to the property's tolerance inside it."""
    prop = 'C01'
    target = MR + ':MatrixLog6'
    under_contract = (MR + ':MatrixLog3', MR + ':MatrixExp6', MR + ':TransToRp')
    max_paths = 120
    timeout = 90.0

    def setup(self, g):
        self.q = g.unit('q', 4)
        self.p = g.reals('p', 3, lo=-1000.0, hi=1000.0)
        self.T = S.RpT(S.Rq(self.q), self.p)
        return (self.T,), {}

    def post(self, g, L, args, kwargs):
        Tm = self.T
        log6_shape(g, L)
        R = Tm[0:3, 0:3]
        c = (R[0][0] + R[1][1] + R[2][2] - 1) / 2
        if g.symbolic and c <= -1:
            half_turn_rules(g, self.q)
        E = _mr(g).MatrixExp6(L)
        g.eq('MatrixExp6(MatrixLog6(T)) rotation = R', E[0:3, 0:3], R, tol=5e-6)
        g.eq('MatrixExp6(MatrixLog6(T)) last row', E[3, :], Tm[3, :])
        # translation: the clause is named separately for logs that fall inside MatrixExp6's own 1e-6 cut-off
        # (non-zero rotation vector of norm < 1e-6), where the library returns the log's translation unchanged
        thl = S.norm(S.vee3(L[0:3, 0:3]))
        if thl < S.CUTOFF and thl > 0:
            g.eq('MatrixExp6(MatrixLog6(T)) translation = p [log inside the 1e-6 cut-off of MatrixExp6]',
                 E[0:3, 3], Tm[0:3, 3], tol=5e-6)
        else:
            g.eq('MatrixExp6(MatrixLog6(T)) translation = p', E[0:3, 3], Tm[0:3, 3], tol=5e-6)


@register
class LogExp6_c(Contract):
    """log(exp(V)) = V for every twist V = (w, v) with |w| < pi"""
    prop = 'C01'
    target = MR + ':MatrixExp6'
    under_contract = (MR + ':MatrixLog6', MR + ':se3ToVec')
    max_paths = 120
    timeout = 90.0

    def setup(self, g):
        self.V = g.reals('V', 6, scale=1.0)
        th = S.norm(self.V[0:3])
        g.require(th < S.pi_of(self.V) if g.symbolic else th < 3.14159)
        return (S.hat6(self.V),), {}

    def post(self, g, Tm, args, kwargs):
        mr = _mr(g)
        L = mr.MatrixLog6(Tm)
        V2 = mr.se3ToVec(L)
        g.eq('se3ToVec(MatrixLog6(MatrixExp6(hat6 V))) = V', V2, g.arr(self.V), tol=5e-6)
