"""L1 contracts: the transform class `tm` (properties C03, C04) on top of the L0 contracts.

Invariant coherent_tm(t)  (C03):  TAA is 6x1, TM is 4x4 with last row 0 0 0 1, TM[0:3,3] = TAA[0:3], and
the rotation block and the rotation vector are an exp/log pair of the L0 layer:
    TM_rot = MatrixExp3(hat TAA_rot)   or   hat TAA_rot = MatrixLog3(TM_rot)      (ghost link)
which by the L0 contracts proved for C01 means TM_rot = ExpLib3(TAA_rot) to 5e-6 and TM in SE(3).
Base: every constructor form establishes it.  Step: every operation preserves it for the receiver and for
every tm argument and establishes it for a tm result -- for ARBITRARY coherent inputs, hence for histories
of any length.  In concrete (replay) mode the same clauses are checked numerically on the native code.
"""
import numpy as _np
from pyvc.contract import Contract, register
from pyvc import spec as S
from pyvc import terms as T
from pyvc import stubs, npx

TMM = 'basic_robotics.general.faser_transform'
BH = 'basic_robotics.general.basic_helpers'
MR = 'basic_robotics.modern_robotics_numba.modern_high_performance'


def mk_tm(g, tmm, name, kind):
    """an arbitrary coherent transform.  kind 'E': built from a six-vector; kind 'L': built from an SE(3) matrix"""
    if kind == 'E':
        x = g.reals(name + 'x', 6, scale=2.0)
        return tmm.tm([x[0], x[1], x[2], x[3], x[4], x[5]])
    q = g.unit(name + 'q', 4)
    p = g.reals(name + 'p', 3, scale=2.0)
    return tmm.tm(S.RpT(S.Rq(q), p))


def check_coherent(g, t, label):
    TM, TAA = t.TM, t.TAA
    ok_shape = (getattr(TAA, 'shape', None) == (6, 1)) and (getattr(TM, 'shape', None) == (4, 4))
    g.holds(label + ': TAA is 6x1 and TM is 4x4', ok_shape)
    if not ok_shape:
        return
    g.eq(label + ': TM translation = TAA[0:3]', TM[0:3, 3], TAA[0:3, 0])
    g.eq(label + ': TM last row = 0 0 0 1', TM[3, :], S.arr([0, 0, 0, 1]) if not g.symbolic else npx.array([0, 0, 0, 1], dtype=float))
    if g.symbolic:
        link = stubs.linked(g.ctx, g.alg, TM[0:3, 0:3], TAA[3:6, 0])
        g.holds(label + ': rotation block and rotation vector are an exp/log pair', link is not None)
    else:
        R = _np.array(TM[0:3, 0:3], dtype=float)
        g.eq(label + ': TM rotation = exp(TAA rotation) to 5e-6', R, S.ExpLib3(list(_np.array(TAA[3:6, 0], dtype=float))), tol=5e-6)
        g.eq(label + ': rotation orthonormal', R.T @ R, _np.eye(3), tol=1e-7)


class TmContract(Contract):
    prop = 'C03'
    kinds = ('E',)
    nin = 1
    tol = 1e-9
    max_paths = 64

    def prepare(self):
        stubs.install()

    def setup(self, g):
        self.g_inputs = None
        return (), {}

    def extra(self, g):
        return None

    def op(self, g, tmm, objs, xs):
        raise NotImplementedError

    def run(self, g, fn, args, kwargs):
        tmm = g.module(TMM)
        objs = [mk_tm(g, tmm, 'abc'[i], self.kinds[i]) for i in range(self.nin)]
        xs = self.extra(g)
        res = self.op(g, tmm, objs, xs)
        return objs, xs, res

    def post(self, g, out, args, kwargs):
        objs, xs, res = out
        tmm = g.module(TMM)
        for i, o in enumerate(objs):
            check_coherent(g, o, 'operand %d after the call' % i)
        # ownership: the induction over histories needs every transform to own its two buffers exclusively
        # (otherwise a later in-place writer of one object silently breaks another)
        allt = list(objs) + ([res] if isinstance(res, tmm.tm) else [r for r in (res if isinstance(res, (tuple, list)) else []) if isinstance(r, tmm.tm)])
        for i in range(len(allt)):
            for j in range(i + 1, len(allt)):
                if allt[i] is allt[j]:
                    continue
                share = any(_np.shares_memory(x, y) for x in (allt[i].TM, allt[i].TAA) for y in (allt[j].TM, allt[j].TAA))
                g.holds('distinct transforms %d and %d share no buffer' % (i, j), not share)
        if isinstance(res, tmm.tm):
            check_coherent(g, res, 'result')
        elif isinstance(res, (tuple, list)):
            for k, r in enumerate(res):
                if isinstance(r, tmm.tm):
                    check_coherent(g, r, 'result %d' % k)
        self.functional(g, objs, xs, res)

    def functional(self, g, objs, xs, res):
        pass


_made = []


def step(name, nin=1, target=None, doc='', kinds=None, **methods):
    """register one contract class per combination of input kinds"""
    import itertools
    combos = kinds or list(itertools.product('EL', repeat=nin))
    for combo in combos:
        cname = 'Tm_%s_%s' % (name, ''.join(combo)) if nin else 'Tm_%s' % name
        d = dict(kinds=tuple(combo), nin=nin, prop=methods.get('prop', 'C03'), target=(TMM + ':tm.' + target) if target and ':' not in target else target,
                 __doc__=doc or ('tm.%s preserves/establishes coherent_tm (inputs: %s)' % (target, ''.join(combo))))
        d.update(methods)
        cls = type(cname, (TmContract,), d)
        register(cls)
        _made.append(cname)


# ---------------------------------------------------------------------------------------------------
# base: constructors

def _ctor_list6(self, g, tmm, objs, xs):
    return tmm.tm([xs[0], xs[1], xs[2], xs[3], xs[4], xs[5]])


def _ctor_arr6(self, g, tmm, objs, xs):
    return tmm.tm(g.arr(xs))


def _ctor_arr61(self, g, tmm, objs, xs):
    return tmm.tm(g.arr(xs).reshape((6, 1)))


def _x6(self, g):
    return g.reals('x', 6, scale=2.0)


def _x3(self, g):
    return g.reals('x', 3, scale=2.0)


def _readback_taa(self, g, objs, xs, res):
    g.eq('six-vector read back = what was given', res.gTAA().reshape(-1), g.arr(xs))


step('ctor_list6', 0, '__init__', 'tm(list of 6) establishes coherence; gTAA reads back the list', extra=_x6, op=_ctor_list6,
     functional=_readback_taa, kinds=[()])
step('ctor_array6', 0, 'from6DOF', 'tm((6,) array)', extra=_x6, op=_ctor_arr6, functional=_readback_taa, kinds=[()])
step('ctor_array61', 0, 'from6DOF', 'tm((6,1) array)', extra=_x6, op=_ctor_arr61, functional=_readback_taa, kinds=[()])


def _readback_rot3(self, g, objs, xs, res):
    g.eq('rotation vector read back', res.gTAA().reshape(-1)[3:6], g.arr(xs))
    g.eq('position is zero', res.gTAA().reshape(-1)[0:3], 0 * g.arr(xs))


step('ctor_list3', 0, 'from3DOF', 'tm(list of 3): pure rotation', extra=_x3,
     op=lambda self, g, tmm, objs, xs: tmm.tm([xs[0], xs[1], xs[2]]), functional=_readback_rot3, kinds=[()])
step('ctor_array3', 0, 'from3DOF', 'tm((3,) array): pure rotation', extra=_x3,
     op=lambda self, g, tmm, objs, xs: tmm.tm(g.arr(xs)), functional=_readback_rot3, kinds=[()])
step('ctor_default', 0, '__init__', 'tm(): identity', op=lambda self, g, tmm, objs, xs: tmm.tm(), kinds=[()],
     functional=lambda self, g, objs, xs, res: (g.eq('identity matrix', res.gTM(), S.eye(4, res.gTM())),
                                               g.eq('zero six-vector', res.gTAA(), 0 * res.gTAA())))
step('ctor_rpy6', 0, 'from6DOF', 'tm(list of 6, rpy=True): position kept, rotation composed through three products',
     extra=_x6, op=lambda self, g, tmm, objs, xs: tmm.tm([xs[0], xs[1], xs[2], xs[3], xs[4], xs[5]], True), kinds=[()],
     functional=lambda self, g, objs, xs, res: g.eq('position read back', res.gTAA().reshape(-1)[0:3], g.arr(xs[0:3])))
step('ctor_rpy3', 0, 'from3DOF', 'tm(list of 3, rpy=True)', extra=_x3,
     op=lambda self, g, tmm, objs, xs: tmm.tm([xs[0], xs[1], xs[2]], True), kinds=[()])


def _x7(self, g):
    p = g.reals('x', 3, scale=2.0)
    q = g.reals('u', 4, scale=1.0)
    n2 = q[0] * q[0] + q[1] * q[1] + q[2] * q[2] + q[3] * q[3]
    g.require(n2 > 0.01 if not g.symbolic else T.lt(T.SR.const(0.01), n2))
    return p + q


step('ctor_list7', 0, 'from7DOF', 'tm(position + quaternion (x,y,z,w), not necessarily normalised)', extra=_x7,
     op=lambda self, g, tmm, objs, xs: tmm.tm([xs[0], xs[1], xs[2], xs[3], xs[4], xs[5], xs[6]]), kinds=[()],
     functional=lambda self, g, objs, xs, res: g.eq('position read back', res.gTAA().reshape(-1)[0:3], g.arr(xs[0:3])))
step('ctor_array7', 0, 'from7DOF', 'tm((7,) array)', extra=_x7,
     op=lambda self, g, tmm, objs, xs: tmm.tm(g.arr(xs)), kinds=[()])


def _se3(self, g):
    q = g.unit('q', 4)
    p = g.reals('p', 3, scale=2.0)
    return S.RpT(S.Rq(q), p)


step('ctor_matrix', 0, 'transformSqueezedCopy', 'tm(4x4 element of SE(3)): gTM reads back the matrix', extra=_se3,
     op=lambda self, g, tmm, objs, xs: tmm.tm(xs), kinds=[()],
     functional=lambda self, g, objs, xs, res: g.eq('matrix read back = what was given', res.gTM(), xs))
step('ctor_copy', 1, '__init__', 'tm(tm): copy constructor', prop=('C03', 'C04'),
     op=lambda self, g, tmm, objs, xs: tmm.tm(objs[0]),
     functional=lambda self, g, objs, xs, res: (g.eq('copy has the same matrix', res.gTM(), objs[0].gTM()),
                                               g.eq('copy has the same six-vector', res.gTAA(), objs[0].gTAA())))


def _ctor_arr_of_tm(self, g, tmm, objs, xs):
    import numpy
    a = numpy.empty((1,), dtype=object)
    a[0] = objs[0]
    return tmm.tm(a)


step('ctor_array_of_tm', 1, '__init__', 'tm(one-element array holding a tm)', op=_ctor_arr_of_tm, prop=('C03', 'C04'),
     functional=lambda self, g, objs, xs, res: g.eq('same matrix', res.gTM(), objs[0].gTM()))

# ---------------------------------------------------------------------------------------------------
# step: setters


def _op_sTM(self, g, tmm, objs, xs):
    objs[0].sTM(xs)


step('sTM', 1, 'sTM', 'sTM(M) with M in SE(3): gTM reads back M', extra=_se3, op=_op_sTM,
     functional=lambda self, g, objs, xs, res: g.eq('gTM() = M', objs[0].gTM(), xs))


def _op_sTAA(self, g, tmm, objs, xs):
    objs[0].sTAA(g.arr(xs).reshape((6, 1)))


step('sTAA', 1, 'sTAA', 'sTAA(v): gTAA reads back v', extra=_x6, op=_op_sTAA,
     functional=lambda self, g, objs, xs, res: g.eq('gTAA() = v', objs[0].gTAA().reshape(-1), g.arr(xs)))


def _mk_set(i):
    def op(self, g, tmm, objs, xs):
        return objs[0].set(i, xs)
    return op


def _mk_setitem(i):
    def op(self, g, tmm, objs, xs):
        objs[0][i] = xs
    return op


def _x1(self, g):
    return g.real('x', scale=2.0)


for _i in range(6):
    step('set%d' % _i, 1, 'set', 't.set(%d, x)' % _i, extra=_x1, op=_mk_set(_i),
         functional=(lambda i: lambda self, g, objs, xs, res: g.eq('t[%d] = x' % i, objs[0][i], xs))(_i))
    step('setitem%d' % _i, 1, '__setitem__', 't[%d] = x' % _i, extra=_x1, op=_mk_setitem(_i),
         functional=(lambda i: lambda self, g, objs, xs, res: g.eq('t[%d] reads back x' % i, objs[0][i], xs))(_i))


def _op_setslice_pos(self, g, tmm, objs, xs):
    objs[0][0:3] = g.arr(xs).reshape((3, 1))


def _op_setslice_rot(self, g, tmm, objs, xs):
    objs[0][3:6] = g.arr(xs).reshape((3, 1))


def _op_setslice_rot_flat(self, g, tmm, objs, xs):
    objs[0][3:6] = g.arr(xs)


step('setslice_pos', 1, '__setitem__', 't[0:3] = (3,1) array', extra=_x3, op=_op_setslice_pos,
     functional=lambda self, g, objs, xs, res: g.eq('t[0:3] reads back', objs[0][0:3].reshape(-1), g.arr(xs)))
step('setslice_rot', 1, '__setitem__', 't[3:6] = (3,1) array', extra=_x3, op=_op_setslice_rot,
     functional=lambda self, g, objs, xs, res: g.eq('t[3:6] reads back', objs[0][3:6].reshape(-1), g.arr(xs)))
step('setslice_rot_flat', 1, '__setitem__', 't[3:6] = (3,) array', extra=_x3, op=_op_setslice_rot_flat,
     functional=lambda self, g, objs, xs, res: g.eq('t[3:6] reads back', objs[0][3:6].reshape(-1), g.arr(xs)))


def _xq(self, g):
    q = g.reals('u', 4, scale=1.0)
    n2 = q[0] * q[0] + q[1] * q[1] + q[2] * q[2] + q[3] * q[3]
    g.require(n2 > 0.01 if not g.symbolic else T.lt(T.SR.const(0.01), n2))
    return q


def _op_setQuat(self, g, tmm, objs, xs):
    objs[0].setQuat(g.arr(xs))


step('setQuat', 1, 'setQuat', 'setQuat(q): rotation block becomes Rq(q/|q|)', extra=_xq, op=_op_setQuat)
step('angleMod', 1, 'angleMod', 'angleMod(): in-place wrap of the rotation entries',
     op=lambda self, g, tmm, objs, xs: objs[0].angleMod())

# ---------------------------------------------------------------------------------------------------
# step: operators and copies

step('copy', 1, 'copy', 'copy()', op=lambda self, g, tmm, objs, xs: objs[0].copy(),
     functional=lambda self, g, objs, xs, res: (g.eq('same matrix', res.gTM(), objs[0].gTM()),
                                               g.eq('same six-vector', res.gTAA(), objs[0].gTAA())))
step('inv', 1, 'inv', 'inv()', op=lambda self, g, tmm, objs, xs: objs[0].inv(),
     functional=lambda self, g, objs, xs, res: g.eq('inv().TM = inverse of TM', S.mm(res.gTM(), objs[0].gTM()), S.eye(4, res.gTM())))
step('matmul', 2, '__matmul__', 'a @ b', op=lambda self, g, tmm, objs, xs: objs[0] @ objs[1],
     functional=lambda self, g, objs, xs, res: g.eq('(a @ b).TM = a.TM b.TM', res.gTM(), S.mm(objs[0].gTM(), objs[1].gTM())))
step('matmul_array', 1, '__matmul__', 'a @ (4x4 SE(3) array)', extra=_se3, op=lambda self, g, tmm, objs, xs: objs[0] @ xs)
step('rmatmul_array', 1, '__rmatmul__', '(4x4 SE(3) array) @ a', extra=_se3, op=lambda self, g, tmm, objs, xs: objs[0].__rmatmul__(xs))
step('mul_tm', 2, '__mul__', 'a * b (matrix product for two transforms)', op=lambda self, g, tmm, objs, xs: objs[0] * objs[1])
step('add', 2, '__add__', 'a + b', op=lambda self, g, tmm, objs, xs: objs[0] + objs[1],
     functional=lambda self, g, objs, xs, res: g.eq('(a + b).TAA = a.TAA + b.TAA', res.gTAA(), objs[0].gTAA() + objs[1].gTAA()))
step('sub', 2, '__sub__', 'a - b', op=lambda self, g, tmm, objs, xs: objs[0] - objs[1],
     functional=lambda self, g, objs, xs, res: g.eq('(a - b).TAA = a.TAA - b.TAA', res.gTAA(), objs[0].gTAA() - objs[1].gTAA()))
step('add_array6', 1, '__add__', 'a + (6,) array', extra=_x6, op=lambda self, g, tmm, objs, xs: objs[0] + g.arr(xs))
step('sub_array6', 1, '__sub__', 'a - (6,) array', extra=_x6, op=lambda self, g, tmm, objs, xs: objs[0] - g.arr(xs))
step('add_scalar', 1, '__add__', 'a + scalar', extra=_x1, op=lambda self, g, tmm, objs, xs: objs[0] + xs)
step('sub_scalar', 1, '__sub__', 'a - scalar', extra=_x1, op=lambda self, g, tmm, objs, xs: objs[0] - xs)
step('mul_scalar', 1, '__mul__', 'a * scalar', extra=_x1, op=lambda self, g, tmm, objs, xs: objs[0] * xs,
     functional=lambda self, g, objs, xs, res: g.eq('(a * k).TAA = k a.TAA', res.gTAA(), objs[0].gTAA() * xs))
step('rmul_scalar', 1, '__rmul__', 'scalar * a', extra=_x1, op=lambda self, g, tmm, objs, xs: xs * objs[0])


def _xnz(self, g):
    x = g.real('x', scale=2.0)
    g.require(abs(x) > 0.01 if not g.symbolic else T.lt(T.SR.const(0.01), abs(x)))
    return x


step('div_scalar', 1, '__truediv__', 'a / scalar (non-zero)', extra=_xnz, op=lambda self, g, tmm, objs, xs: objs[0] / xs,
     functional=lambda self, g, objs, xs, res: g.eq('(a / k).TAA = a.TAA / k', res.gTAA(), objs[0].gTAA() / xs))
step('abs', 1, '__abs__', 'abs(a)', op=lambda self, g, tmm, objs, xs: abs(objs[0]))
step('floordiv_scalar', 1, '__floordiv__', 'a // scalar (non-zero)', extra=_xnz, op=lambda self, g, tmm, objs, xs: objs[0] // xs)
step('floordiv_tm', 2, '__floordiv__', 'a // b (matrix right division)', op=lambda self, g, tmm, objs, xs: objs[0] // objs[1],
     functional=lambda self, g, objs, xs, res: g.eq('(a // b).TM b.TM = a.TM', S.mm(res.gTM(), objs[1].gTM()), objs[0].gTM()))
step('T', 1, 'T', 'T(): transpose -- not a rigid transform in general, so only operands are checked',
     op=lambda self, g, tmm, objs, xs: None)


def _l2g(self, g, tmm, objs, xs):
    bh = g.module(BH)
    return bh.localToGlobal(objs[0], objs[1])


def _g2l(self, g, tmm, objs, xs):
    bh = g.module(BH)
    return bh.globalToLocal(objs[0], objs[1])


step('localToGlobal', 2, BH + ':localToGlobal', 'localToGlobal(ref, rel)', op=_l2g)
step('globalToLocal', 2, BH + ':globalToLocal', 'globalToLocal(ref, x)', op=_g2l)
step('TAAtoTM', 1, 'TAAtoTM', 'TAAtoTM()', op=lambda self, g, tmm, objs, xs: objs[0].TAAtoTM())
step('TMtoTAA', 1, 'TMtoTAA', 'TMtoTAA()', op=lambda self, g, tmm, objs, xs: objs[0].TMtoTAA())
