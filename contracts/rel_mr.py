"""C02 -- relational contracts: every function the Numba port shares with the reference Modern Robotics
library computes, on the SAME symbolic arguments, a result of the same shape and the same values, and does not
raise where the reference returns.  Both sources (the port from /repo, the reference from
/verif/vendor/modern_robotics-1.1.1/core.py, sha256 checked against the installed package) go through the same
mechanical transform and run under one path explorer; LAPACK results are the same uninterpreted function on
both sides (memoised on the argument), so equal arguments give equal results by congruence.
"""
import os
import hashlib
import numpy as _np
from pyvc.contract import Contract, register
from pyvc import spec as S
from pyvc import terms as T
from pyvc import npx, loader

MR = 'basic_robotics.modern_robotics_numba.modern_high_performance'
ROOT = os.path.dirname(os.path.dirname(os.path.abspath(__file__)))
REF_PATH = os.path.join(ROOT, 'vendor', 'modern_robotics-1.1.1', 'core.py')
REF_SHA = '0147b8635e55a77cb9d8bfa02396d20e5c9f63989a6a75b3ba9bec1002b964c7'


def ref_module(g):
    if g.symbolic:
        return loader.load_file('mr_reference_core', REF_PATH)
    import modern_robotics
    return modern_robotics


def cells(x, depth=0):
    """flatten a result (array / tuple / list / scalar / bool) to (shape signature, list of cells)"""
    if isinstance(x, _np.ndarray):
        return ('arr', x.shape), list(x.reshape(-1))
    if isinstance(x, (tuple, list)):
        sigs, out = [], []
        for y in x:
            s, c = cells(y, depth + 1)
            sigs.append(s)
            out += c
        return ('seq', tuple(sigs)), out
    return ('scalar',), [x]


class Rel(Contract):
    prop = ('C02', 'C17')      # both sources run with NumPy's index checks on every explored path (C17, clause 1)
    fname = None
    n = 1
    tol = 1e-9
    max_paths = 200
    timeout = 30.0

    def setup(self, g):
        return (), {}

    def args(self, g):
        raise NotImplementedError

    def run(self, g, fn, a, kw):
        if g.mode != 'sample':
            sha = hashlib.sha256(open(REF_PATH, 'rb').read()).hexdigest()
            g.holds('vendored reference is the pinned modern_robotics 1.1.1 core.py', sha == REF_SHA)
        port = getattr(g.module(MR), self.fname)
        ref = getattr(ref_module(g), self.fname)
        args1 = self.args(g)
        args2 = [x.copy() if isinstance(x, _np.ndarray) else (list(x) if isinstance(x, list) else x) for x in args1]
        if g.mode == 'sample':
            return None
        try:
            r_ref = ref(*args2)
        except Exception as e:
            from pyvc.terms import EngineError
            from pyvc.explore import AssumeFalse, PathLimit
            if isinstance(e, (EngineError, AssumeFalse, PathLimit)):
                raise
            return ('ref-raised', type(e).__name__, None)
        r_port = port(*args1)          # an exception here is an obligation failure (reference returned)
        return ('ok', r_ref, r_port)

    def post(self, g, out, a, kw):
        if out is None or out[0] == 'ref-raised':
            return
        _, r_ref, r_port = out
        s1, c1 = cells(r_ref)
        s2, c2 = cells(r_port)
        g.holds('%s: result has the shape of the reference result (%s)' % (self.fname, s1), s1 == s2)
        if s1 != s2 or len(c1) != len(c2):
            return
        bools = [(x, y) for x, y in zip(c1, c2) if isinstance(x, (bool, _np.bool_, T.SB)) or isinstance(y, (bool, _np.bool_, T.SB))]
        nums = [(x, y) for x, y in zip(c1, c2) if not (isinstance(x, (bool, _np.bool_, T.SB)) or isinstance(y, (bool, _np.bool_, T.SB)))]
        if nums:
            g.eq('%s: values equal the reference' % self.fname, S.arr([y for x, y in nums]) if not g.symbolic else npx.array([y for x, y in nums], dtype=float),
                 S.arr([x for x, y in nums]) if not g.symbolic else npx.array([x for x, y in nums], dtype=float))
        for k, (x, y) in enumerate(bools):
            if g.symbolic:
                g.holds('%s: boolean result %d equals the reference' % (self.fname, k), T.SB_lift(x) == T.SB_lift(y))
            else:
                g.holds('%s: boolean result %d equals the reference' % (self.fname, k), bool(x) == bool(y))


# -- argument builders ---------------------------------------------------------------------------------

def vec(g, name, n, scale=1.5):
    return g.arr(g.reals(name, n, scale=scale))


def rot(g, name):
    return S.Rq(g.unit(name, 4))


def se3(g, name):
    return S.RpT(rot(g, name + 'q'), g.reals(name + 'p', 3, scale=2.0))


def screws(g, name, n):
    cols = []
    for i in range(n):
        cols.append(list(g.unit('%sw%d_' % (name, i), 3)) + list(g.reals('%sv%d_' % (name, i), 3, scale=1.5)))
    return g.arr([[cols[j][k] for j in range(n)] for k in range(6)])


def spd6(g, name):
    """a symmetric positive-definite spatial inertia: diag(Ixx, Iyy, Izz, m, m, m) with positive entries"""
    d = [g.real('%s%d' % (name, i), lo=0.1, hi=5.0) for i in range(4)]
    z = 0 * d[0]
    G = [[z] * 6 for _ in range(6)]
    for i in range(3):
        G[i][i] = d[i]
        G[i + 3][i + 3] = d[3]
    return g.arr(G)


def rel(name, fname, args, n=1, doc='', tier='quick', max_paths=200, shape_bound=None):
    register(type('Rel_' + name, (Rel,), dict(fname=fname, args=lambda self, g: args(g), n=n, tier=tier, max_paths=max_paths,
                                             target=MR + ':' + fname, shape_bound=shape_bound,
                                             __doc__=doc or ('%s: port = reference on the same arguments' % fname))))


rel('NearZero', 'NearZero', lambda g: [g.real('z')])
rel('Normalize', 'Normalize', lambda g: [_nz(g, vec(g, 'V', 3))])
rel('RotInv', 'RotInv', lambda g: [rot(g, 'q')])
rel('VecToso3', 'VecToso3', lambda g: [vec(g, 'w', 3)])
rel('so3ToVec', 'so3ToVec', lambda g: [S.hat3(g.reals('w', 3))])
rel('AxisAng3', 'AxisAng3', lambda g: [_nz(g, vec(g, 'w', 3))])
rel('MatrixExp3', 'MatrixExp3', lambda g: [S.hat3(g.reals('w', 3, scale=2.0))])
rel('MatrixLog3', 'MatrixLog3', lambda g: [rot(g, 'q')], max_paths=60)
rel('RpToTrans', 'RpToTrans', lambda g: [rot(g, 'q'), vec(g, 'p', 3)])
rel('TransToRp', 'TransToRp', lambda g: [se3(g, 'T')])
rel('TransInv', 'TransInv', lambda g: [se3(g, 'T')])
rel('VecTose3', 'VecTose3', lambda g: [vec(g, 'V', 6)])
rel('se3ToVec', 'se3ToVec', lambda g: [S.hat6(g.reals('V', 6))])
rel('Adjoint', 'Adjoint', lambda g: [se3(g, 'T')])
rel('ScrewToAxis', 'ScrewToAxis', lambda g: [vec(g, 'q', 3), vec(g, 's', 3), g.real('h')])
rel('AxisAng6', 'AxisAng6', lambda g: [_nz6(g, vec(g, 'V', 6))])


def _pure_translation(g):
    v = g.reals('v', 3, scale=2.0)
    g.require(v[0] * v[0] + v[1] * v[1] + v[2] * v[2] > 1e-4)
    z = 0 * v[0]
    return [g.arr([z, z, z, v[0], v[1], v[2]])]


rel('AxisAng6_pure_translation', 'AxisAng6', _pure_translation, doc='AxisAng6 on a pure translation (angular part zero: the fallback branch)')
rel('MatrixExp6', 'MatrixExp6', lambda g: [S.hat6(g.reals('V', 6, scale=2.0))])
rel('MatrixLog6', 'MatrixLog6', lambda g: [se3(g, 'T')], max_paths=120)
rel('DistanceToSO3', 'DistanceToSO3', lambda g: [g.arr([g.reals('m%d' % i, 3) for i in range(3)])])
rel('TestIfSO3', 'TestIfSO3', lambda g: [g.arr([g.reals('m%d' % i, 3) for i in range(3)])])
rel('ad', 'ad', lambda g: [vec(g, 'V', 6)])
rel('EulerStep', 'EulerStep', lambda g: [vec(g, 't', 3), vec(g, 'd', 3), vec(g, 'a', 3), g.real('dt', lo=0.001, hi=1.0)],
    shape_bound='n = 3')
rel('CubicTimeScaling', 'CubicTimeScaling', lambda g: [g.real('Tf', lo=0.5, hi=10.0), g.real('t', lo=0.0, hi=10.0)])
rel('QuinticTimeScaling', 'QuinticTimeScaling', lambda g: [g.real('Tf', lo=0.5, hi=10.0), g.real('t', lo=0.0, hi=10.0)])


def _nz(g, v):
    n2 = v[0] * v[0] + v[1] * v[1] + v[2] * v[2]
    g.require(n2 > 1e-4)
    return v


def _nz6(g, v):
    n2 = v[0] * v[0] + v[1] * v[1] + v[2] * v[2]
    g.require(n2 > 1e-4)
    return v


for _n in (1, 2):
    _sb = 'chain of %d joint(s), unit rotation axes' % _n
    rel('FKinBody_%d' % _n, 'FKinBody', (lambda n: lambda g: [se3(g, 'M'), screws(g, 'B', n), vec(g, 't', n, 1.0)])(_n), shape_bound=_sb,
        max_paths=80)
    rel('FKinSpace_%d' % _n, 'FKinSpace', (lambda n: lambda g: [se3(g, 'M'), screws(g, 'S', n), vec(g, 't', n, 1.0)])(_n), shape_bound=_sb,
        max_paths=80)
    rel('JacobianBody_%d' % _n, 'JacobianBody', (lambda n: lambda g: [screws(g, 'B', n), vec(g, 't', n, 1.0)])(_n), shape_bound=_sb)
    rel('JacobianSpace_%d' % _n, 'JacobianSpace', (lambda n: lambda g: [screws(g, 'S', n), vec(g, 't', n, 1.0)])(_n), shape_bound=_sb)


def _dyn_args(g, n, which):
    th = vec(g, 't', n, 1.0)
    dth = vec(g, 'd', n, 1.0)
    ddth = vec(g, 'a', n, 1.0)
    grav = vec(g, 'g', 3, 5.0)
    F = vec(g, 'F', 6, 2.0)
    Ml = [S.RpT(S.eye(3, th), g.reals('M%dp' % i, 3, scale=1.0)) for i in range(n + 1)]
    Gl = [spd6(g, 'G%d_' % i) for i in range(n)]
    Sl = screws(g, 'S', n)
    tau = vec(g, 'u', n, 2.0)
    return {
        'InverseDynamics': [th, dth, ddth, grav, F, Ml, Gl, Sl],
        'MassMatrix': [th, Ml, Gl, Sl],
        'VelQuadraticForces': [th, dth, Ml, Gl, Sl],
        'GravityForces': [th, grav, Ml, Gl, Sl],
        'EndEffectorForces': [th, F, Ml, Gl, Sl],
        'ForwardDynamics': [th, dth, tau, grav, F, Ml, Gl, Sl],
    }[which]


for _f in ('InverseDynamics', 'MassMatrix', 'VelQuadraticForces', 'GravityForces', 'EndEffectorForces', 'ForwardDynamics'):
    rel(_f + '_1', _f, (lambda f: lambda g: _dyn_args(g, 1, f))(_f), shape_bound='1 joint, translated link frames, diagonal inertias',
        max_paths=40)
    # ForwardDynamics at 2 joints: the 'denominator non-zero' obligation of the reference's matrix inverse (det of the symbolic
    # 2x2 mass matrix) is undecided by every back end within the budget: switched off rather than left to report 'undecided'
    rel(_f + '_2', _f, (lambda f: lambda g: _dyn_args(g, 2, f))(_f), shape_bound='2 joints, translated link frames, diagonal inertias',
        tier='off' if _f == 'ForwardDynamics' else 'thorough', max_paths=120)


def _traj(g, which):
    n, N = 2, 3
    if which == 'JointTrajectory':
        return [vec(g, 's', n), vec(g, 'e', n), g.real('Tf', lo=0.5, hi=5.0), N, 3]
    if which == 'ScrewTrajectory':
        return [se3(g, 'A'), se3(g, 'B'), g.real('Tf', lo=0.5, hi=5.0), 2, 3]
    return [se3(g, 'A'), se3(g, 'B'), g.real('Tf', lo=0.5, hi=5.0), 2, 5]


rel('JointTrajectory', 'JointTrajectory', lambda g: _traj(g, 'JointTrajectory'), shape_bound='n = 2, N = 3, cubic')
rel('JointTrajectory_quintic', 'JointTrajectory', lambda g: _traj(g, 'JointTrajectory')[:4] + [5], shape_bound='n = 2, N = 3, quintic')
rel('ScrewTrajectory', 'ScrewTrajectory', lambda g: _traj(g, 'ScrewTrajectory'), shape_bound='N = 2, cubic', tier='off',
    max_paths=400)
rel('CartesianTrajectory', 'CartesianTrajectory', lambda g: _traj(g, 'CartesianTrajectory'), shape_bound='N = 2, quintic', tier='off',
    max_paths=400)


def _idt(g):
    n, N = 1, 2
    th = g.arr([g.reals('t%d_' % k, n) for k in range(N)])
    dth = g.arr([g.reals('d%d_' % k, n) for k in range(N)])
    ddth = g.arr([g.reals('a%d_' % k, n) for k in range(N)])
    F = g.arr([g.reals('F%d_' % k, 6) for k in range(N)])
    a = _dyn_args(g, n, 'InverseDynamics')
    return [th, dth, ddth, a[3], F, a[5], a[6], a[7]]


rel('InverseDynamicsTrajectory', 'InverseDynamicsTrajectory', _idt, shape_bound='1 joint, N = 2', max_paths=60)


def _fdt(g):
    n, N = 1, 2
    a = _dyn_args(g, n, 'ForwardDynamics')
    tau = g.arr([g.reals('u%d_' % k, n) for k in range(N)])
    F = g.arr([g.reals('F%d_' % k, 6) for k in range(N)])
    return [a[0], a[1], tau, a[3], F, a[5], a[6], a[7], g.real('dt', lo=0.01, hi=0.5), 1]


rel('ForwardDynamicsTrajectory', 'ForwardDynamicsTrajectory', _fdt, shape_bound='1 joint, N = 2, intRes = 1', max_paths=60)


def _ct(g):
    n = 1
    a = _dyn_args(g, n, 'InverseDynamics')
    th, dth = a[0], a[1]
    eint = vec(g, 'ei', n)
    thd, dthd, ddthd = vec(g, 'rd', n), vec(g, 'vd', n), vec(g, 'ad', n)
    return [th, dth, eint, a[3], a[5], a[6], a[7], thd, dthd, ddthd, g.real('Kp', lo=0.1, hi=5), g.real('Ki', lo=0.1, hi=5),
            g.real('Kd', lo=0.1, hi=5)]


rel('ComputedTorque', 'ComputedTorque', _ct, shape_bound='1 joint', max_paths=60)


def _sc(g):
    n, N = 1, 2
    a = _dyn_args(g, n, 'ForwardDynamics')
    th, dth, grav, Mlist, Glist, Slist = a[0], a[1], a[3], a[5], a[6], a[7]
    Ftipmat = g.arr([g.reals('F%d_' % k, 6) for k in range(N)])
    thd = g.arr([g.reals('rd%d_' % k, n) for k in range(N)])
    dthd = g.arr([g.reals('vd%d_' % k, n) for k in range(N)])
    ddthd = g.arr([g.reals('ad%d_' % k, n) for k in range(N)])
    cp = lambda x: x.copy() if isinstance(x, _np.ndarray) else [y.copy() for y in x]
    return [th, dth, grav, Ftipmat, Mlist, Glist, Slist, thd, dthd, ddthd, cp(grav), cp(Mlist), cp(Glist),
            g.real('Kp', lo=0.1, hi=5), g.real('Ki', lo=0.1, hi=5), g.real('Kd', lo=0.1, hi=5), g.real('dt', lo=0.01, hi=0.5), 1]


rel('SimulateControl', 'SimulateControl', _sc, shape_bound='1 joint, N = 2, intRes = 1; the result plot goes to a recording no-op pyplot',
    max_paths=60)


class _Purity(Rel):
    """the ported dynamics functions are pure: a call's result does not depend on earlier calls with other link frames /
    inertias at the same joint state (no stale module-level state); both calls equal the reference"""
    fname = 'MassMatrix'
    target = MR + ':MassMatrix'
    shape_bound = '1 joint, two different models at one joint state'
    max_paths = 60

    def run(self, g, fn, a, kw):
        if g.mode == 'sample':
            _dyn_args(g, 1, 'ForwardDynamics')
            for i in range(2):
                g.reals('N%dp' % i, 3, scale=1.0)
            for i in range(4):
                g.real('H0_%d' % i, lo=0.1, hi=5.0)
            return None
        port = g.module(MR)
        ref = ref_module(g)
        th, dth, tau, grav, F, Ml, Gl, Sl = _dyn_args(g, 1, 'ForwardDynamics')
        Ml2 = [S.RpT(S.eye(3, th), g.reals('N%dp' % i, 3, scale=1.0)) for i in range(2)]
        Gl2 = [spd6(g, 'H0_')]
        cp = lambda x: x.copy() if isinstance(x, _np.ndarray) else [y.copy() for y in x]
        out = []
        for (M_, G_) in ((Ml, Gl), (Ml2, Gl2), (Ml, Gl)):
            out.append((ref.MassMatrix(cp(th), cp(M_), cp(G_), cp(Sl)), port.MassMatrix(cp(th), cp(M_), cp(G_), cp(Sl))))
            out.append((ref.VelQuadraticForces(cp(th), cp(dth), cp(M_), cp(G_), cp(Sl)),
                        port.VelQuadraticForces(cp(th), cp(dth), cp(M_), cp(G_), cp(Sl))))
        return out

    def post(self, g, out, a, kw):
        if out is None:
            return
        for k, (r, p) in enumerate(out):
            nm = ('MassMatrix', 'VelQuadraticForces')[k % 2] + ' call %d of a sequence with alternating models' % (k // 2 + 1)
            g.eq(nm + ' equals the reference', _np.asarray(p, dtype=object) if g.symbolic else _np.asarray(p, dtype=float),
                 _np.asarray(r, dtype=object) if g.symbolic else _np.asarray(r, dtype=float))


register(type('Rel_dynamics_call_sequence', (_Purity,), dict()))
