"""C07 -- inverse kinematics never claims a pose it has not reached (safety clauses).

The two Newton solvers are verified with the invariant (cut) rule: the loop is not unrolled, so the result
holds for any number of iterations.  Forward kinematics, the logarithm and the Jacobian are abstracted as
uninterpreted deterministic functions of their arguments (their own contracts are C05/C01): the safety clauses
do not depend on what they compute, only on the solver comparing the right halves of the error twist with the
right tolerances and writing back what it tested.  The pseudo-inverse is uninterpreted as well, so no property
of the Newton step is used.
"""
import numpy as _np
from pyvc.contract import Contract, register
from pyvc import spec as S
from pyvc import terms as T
from pyvc import npx, loops, loader

FHP = 'basic_robotics.general.faser_high_performance'
MR = 'basic_robotics.modern_robotics_numba.modern_high_performance'
ARM = 'basic_robotics.kinematics.arm_model'


def uf_matrix(name, shape, args):
    r = _np.empty(shape, dtype=object)
    for idx in _np.ndindex(*shape):
        r[idx] = T.uf('%s_%s' % (name, '_'.join(map(str, idx))), *args)
    return r.view(npx.SArr)


def install_abstractions(mod):
    """FKinSpace, JacobianSpace, MatrixLog6 -> uninterpreted deterministic functions of their (varying) arguments"""
    if getattr(mod, '__pyvc_ik_abstract', False):
        return

    def FKinSpace(M, Slist, thetalist):
        if not npx._has_sym([M, Slist, thetalist]):
            return mod.__dict__['__real_FKinSpace'](M, Slist, thetalist)
        return uf_matrix('FK', (4, 4), [T.SR.lift(x) for x in npx.asarray(thetalist).reshape(-1)])

    def JacobianSpace(Slist, thetalist):
        th = [T.SR.lift(x) for x in npx.asarray(thetalist).reshape(-1)]
        return uf_matrix('JS', (6, len(th)), th)

    def MatrixLog6(X):
        cells = [T.SR.lift(x) for x in npx.asarray(X).reshape(-1)]
        L = uf_matrix('LOG6', (4, 4), cells)
        return L

    for nm, f in (('FKinSpace', FKinSpace), ('JacobianSpace', JacobianSpace), ('MatrixLog6', MatrixLog6)):
        mod.__dict__['__real_' + nm] = mod.__dict__[nm]
        mod.__dict__[nm] = f
    mod.__dict__['__pyvc_ik_abstract'] = True


def error_twist(mod, ee_home, screw_list, ee_goal, theta):
    ee = mod.FKinSpace(ee_home, screw_list, theta)
    return npx.dot(mod.Adjoint(ee), mod.se3ToVec(mod.MatrixLog6(npx.dot(mod.TransInv(ee), ee_goal))))


def norms(E):
    return npx.norm(E[0:3]), npx.norm(E[3:6])


class _SolverBase(Contract):
    prop = 'C07'
    n = 2
    max_paths = 60
    feas_timeout = 0.8     # branch-feasibility queries over uninterpreted functions time out anyway: unknown keeps the path
    replayable = False     # inputs are abstract matrices and FK / Jacobian / log are uninterpreted: a counter-model has no
    #                        native counterpart (violations are reported with no-failing-input-found)
    shape_bound = 'chains of 2 joints (the invariant itself is independent of the chain length)'

    def inputs(self, g):
        n = self.n
        self.S = g.arr([g.reals('S%d_' % k, n) for k in range(6)])
        self.M = g.arr([g.reals('M%d_' % k, 4) for k in range(4)])
        self.G = g.arr([g.reals('G%d_' % k, 4) for k in range(4)])
        self.th0 = g.arr(g.reals('t', n))
        self.pos_tol = g.real('postol', lo=1e-9, hi=1e-2)
        self.rot_tol = g.real('rottol', lo=1e-9, hi=1e-2)
        self.maxit = g.real('maxit', lo=0.0, hi=100.0)


class IK_constrained_solver(_SolverBase):
    """IKinSpaceConstrained: success => |angular part of the error twist| <= rotation tolerance and |linear part| <=
    position tolerance for the returned joint vector, which lies inside the joint limits (start inside the limits)"""
    target = FHP + ':IKinSpaceConstrained'

    def prepare(self):
        me = self

        def inv(L):
            mod = loader.load(FHP)
            E = error_twist(mod, L['ee_home'], L['screw_list'], L['ee_goal'], L['theta_list'])
            nw, nv = norms(E)
            out = [('error vector is the error of the current joint vector [%d]' % k, T.eq(L['error_vec'][k], E[k])) for k in range(6)]
            bad = T.sor(T.lt(L['rotation_tolerance'], nw), T.lt(L['position_tolerance'], nv))
            out.append(('error flag <=> an error norm exceeds its own tolerance', T.SB_lift(L['error_bool']) == bad))
            for j in range(me.n):
                out.append(('joint %d within its limits' % j, T.sand(T.le(L['joint_mins'][j], L['theta_list'][j]),
                                                                      T.le(L['theta_list'][j], L['joint_maxs'][j]))))
            return out
        loops.register(FHP, 'IKinSpaceConstrained', 0, loops.LoopSpec(inv, name='Newton iteration with clamping'))
        install_abstractions(loader.load(FHP))

    def setup(self, g):
        self.inputs(g)
        n = self.n
        self.lo = g.arr(g.reals('lo', n, lo=-4.0, hi=0.0))
        self.hi = g.arr(g.reals('hi', n, lo=0.0, hi=4.0))
        for j in range(n):
            g.require(self.lo[j] <= self.th0[j])
            g.require(self.th0[j] <= self.hi[j])
        return (self.S, self.M, self.G, self.th0, self.pos_tol, self.rot_tol, self.lo, self.hi, self.maxit), {}

    def post(self, g, res, args, kwargs):
        theta, success = res
        if g.symbolic:
            mod = loader.load(FHP)
            E = error_twist(mod, self.M, self.S, self.G, theta)
            nw, nv = norms(E)
            ok = T.sand(T.le(nw, self.rot_tol), T.le(nv, self.pos_tol))
            g.holds('success => orientation error <= rotation tolerance and position error <= position tolerance',
                    T.implies(T.SB_lift(success), ok))
            for j in range(self.n):
                g.holds('returned joint %d inside its limits' % j, T.sand(T.le(self.lo[j], theta[j]), T.le(theta[j], self.hi[j])))
        else:
            raise NotImplementedError


@register
class IK_free_solver(_SolverBase):
    """IKinSpace (port of the reference): success => |angular part| <= eomg and |linear part| <= ev"""
    prop = ('C07', 'C02')
    target = MR + ':IKinSpace'

    def prepare(self):
        def inv(L):
            mod = loader.load(MR)
            E = error_twist(mod, L['M'], L['Slist'], L['T'], L['thetalist'])
            nw, nv = norms(E)
            out = [('Vs is the error twist of the current joint vector [%d]' % k, T.eq(L['Vs'][k], E[k])) for k in range(6)]
            bad = T.sor(T.lt(L['eomg'], nw), T.lt(L['ev'], nv))
            out.append(('err <=> an error norm exceeds its own tolerance', T.SB_lift(L['err']) == bad))
            return out
        loops.register(MR, 'IKinSpace', 0, loops.LoopSpec(inv, name='Newton iteration'))
        install_abstractions(loader.load(MR))

    def setup(self, g):
        self.inputs(g)
        return (self.S, self.M, self.G, self.th0, self.rot_tol, self.pos_tol, self.maxit), {}

    def post(self, g, res, args, kwargs):
        theta, success = res
        mod = loader.load(MR)
        E = error_twist(mod, self.M, self.S, self.G, theta)
        nw, nv = norms(E)
        g.holds('success => |angular error| <= eomg and |linear error| <= ev',
                T.implies(T.SB_lift(success), T.sand(T.le(nw, self.rot_tol), T.le(nv, self.pos_tol))))


register(type('IK_constrained_solver_1', (IK_constrained_solver,), dict(n=1, shape_bound='1 joint (the invariant is independent of the chain length; 2 joints in the thorough tier)')))
register(type('IK_constrained_solver_2', (IK_constrained_solver,), dict(n=2, tier='thorough')))


# ---------------------------------------------------------------------------------------------------
# Arm level: state write-back of Arm.IK / Arm.constrainedIK, solvers replaced by their contracts

from .l3_arm import ArmFixture, ARM as _ARM      # noqa: E402
from .l2_screw_wrench import frame as _frame      # noqa: E402
from pyvc import stubs as _stubs                 # noqa: E402


class _ArmIK(Contract):
    """the solver is replaced by its contract (proved above): it returns SOME joint vector and SOME success flag,
    deterministically in its arguments; whatever it returns, the arm must (i) pass its own rotation / position
    tolerances in the right places, (ii) on success hold exactly the returned joint vector and report the goal as its
    tool pose, (iii) on failure report the pose of the joint vector it stores"""
    prop = 'C07'
    n = 2
    constrained = False
    max_paths = 400
    timeout = 40.0
    tol = 1e-7
    shape_bound = 'fixed 2-joint geometry (rational data), arbitrary goal, start and solver outcome'

    def prepare(self):
        _stubs.install()

    def setup(self, g):
        return (), {}

    def run(self, g, fn, args, kwargs):
        if not g.symbolic:
            raise NotImplementedError
        fx = ArmFixture(g, self.n, base_identity=True, fixed_geometry=True)
        a = fx.arm
        fmr = g.module(FHP)
        goal, Mg = _frame(g, 'G')
        th0 = g.arr(g.reals('s', self.n, lo=-3.0, hi=3.0))
        calls = []
        memo = []

        def solver(name, theta0, tols, lims=None):
            key = tuple(T.SR.lift(x) for x in npx.asarray(theta0).reshape(-1))
            for k0, res in memo:
                if len(k0) == len(key) and all(x is y for x, y in zip(k0, key)):
                    calls.append(dict(name=name, tols=tols, theta=res[0], success=res[1], repeat=True))
                    return res[0].copy(), res[1]
            k = len(memo)
            th = npx.array([T.SR.var('sol%d_%d' % (k, j)) for j in range(self.n)], dtype=float)
            ok = T.bvar('solver_success_%d' % k)
            for j in range(self.n):
                # solutions are reported modulo nothing: keep them inside (-2 pi, 2 pi) so that angleMod is the identity
                g.ctx.assume(T.sand(T.le(-6.0, th[j]), T.le(th[j], 6.0)), tag='solver result range (assumed)')
                if lims is not None:
                    g.ctx.assume(T.sand(T.le(lims[0][j], th[j]), T.le(th[j], lims[1][j])), tag='callee contract: result inside the limits')
            memo.append((key, (th, ok)))
            calls.append(dict(name=name, tols=tols, theta=th, success=ok, repeat=False))
            return th.copy(), ok

        def IKinSpace(Slist, M, Tg, thetalist0, eomg, ev, max_iters=20):
            return solver('IKinSpace', thetalist0, (eomg, ev))

        def IKinSpaceConstrained(Slist, M, Tg, theta_list, position_tolerance, rotation_tolerance, joint_mins, joint_maxs, max_iterations):
            return solver('IKinSpaceConstrained', theta_list, (rotation_tolerance, position_tolerance), (joint_mins, joint_maxs))
        old = (fmr.IKinSpace, fmr.IKinSpaceConstrained)
        fmr.IKinSpace, fmr.IKinSpaceConstrained = IKinSpace, IKinSpaceConstrained
        try:
            if self.constrained:
                theta, success = a.constrainedIK(goal, th0.copy(), True, 1)
            else:
                theta, success = a.IK(goal, th0.copy(), True, 2, 30, True)
        finally:
            fmr.IKinSpace, fmr.IKinSpaceConstrained = old
        return fx, theta, success, calls, Mg

    def post(self, g, out, args, kwargs):
        fx, theta, success, calls, Mg = out
        a = fx.arm
        z = ' [a rotation vector of norm below 1e-6 went through the exponential cut-off]' if _stubs.ghost_of(g.ctx).cutoff_hits else ''
        g.holds('the solver was called', len(calls) >= 1)
        for c in calls:
            g.eq('%s receives the arm\'s rotation tolerance for the angular part' % c['name'], c['tols'][0], a.rot_tolerance)
            g.eq('%s receives the arm\'s position tolerance for the linear part' % c['name'], c['tols'][1], a.pos_tolerance)
        sb = T.SB_lift(success)
        # which call produced the reported verdict?  its joint vector must be the one returned and stored
        if bool(sb):
            winners = [c for c in calls if T.SB_lift(c['success']) is sb or bool(T.SB_lift(c['success']))]
            g.holds('success: the returned joint vector is the one the succeeding solver call produced',
                    any(all(x is y for x, y in zip(theta.reshape(-1), c['theta'].reshape(-1))) for c in winners))
            g.eq('success: the arm stores the returned joint vector', a._theta.reshape(-1), theta.reshape(-1))
            if self.constrained:
                # the limit-respecting path re-evaluates FK of the solution: the reported pose is the pose of the stored
                # vector (within the solver tolerances of the goal by the callee contract)
                want = S.PoE(a._end_effector_home.gTM(), a.screw_list, list(a._theta.reshape(-1)))
                g.eq('success: the reported tool pose is the pose of the stored solution' + z, a.getEEPos().gTM(), want, tol=5e-6)
            else:
                g.eq('success: the reported tool pose is the goal' + z, a.getEEPos().gTM(), Mg, tol=5e-6)
        else:
            want = S.PoE(a._end_effector_home.gTM(), a.screw_list, list(a._theta.reshape(-1)))
            g.eq('failure: the reported tool pose is the pose of the stored joint vector' + z, a.getEEPos().gTM(), want, tol=5e-6)


register(type('Arm_IK_free_writeback', (_ArmIK,), dict(constrained=False, target=_ARM + ':Arm.IK', replayable=False)))
register(type('Arm_IK_constrained_writeback', (_ArmIK,), dict(constrained=True, target=_ARM + ':Arm.constrainedIK', replayable=False)))
