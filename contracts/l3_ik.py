"""C07 -- inverse kinematics never claims a pose it has not reached (safety clauses).

The two Newton solvers are verified with the invariant (cut) rule: the loop is not unrolled, so the result
holds for any number of iterations.  Forward kinematics, the logarithm and the Jacobian are abstracted as
uninterpreted deterministic functions of their arguments (their own contracts are C05/C01): the safety clauses
do not depend on what they compute, only on the solver comparing the right halves of the error twist with the
right tolerances and writing back what it tested.  The pseudo-inverse is uninterpreted as well, so no property
of the Newton step is used.
"""
import numpy as _np
from pyvc.contract import Contract, register
from pyvc import spec as S
from pyvc import terms as T
from pyvc import npx, loops, loader

FHP = 'basic_robotics.general.faser_high_performance'
MR = 'basic_robotics.modern_robotics_numba.modern_high_performance'
ARM = 'basic_robotics.kinematics.arm_model'


def uf_matrix(name, shape, args):
    r = _np.empty(shape, dtype=object)
    for idx in _np.ndindex(*shape):
        r[idx] = T.uf('%s_%s' % (name, '_'.join(map(str, idx))), *args)
    return r.view(npx.SArr)


def install_abstractions(mod):
    """FKinSpace, JacobianSpace, MatrixLog6 -> uninterpreted deterministic functions of their (varying) arguments"""
    if getattr(mod, '__pyvc_ik_abstract', False):
        return

    def FKinSpace(M, Slist, thetalist):
        if not npx._has_sym([M, Slist, thetalist]):
            return mod.__dict__['__real_FKinSpace'](M, Slist, thetalist)
        return uf_matrix('FK', (4, 4), [T.SR.lift(x) for x in npx.asarray(thetalist).reshape(-1)])

    def JacobianSpace(Slist, thetalist):
        th = [T.SR.lift(x) for x in npx.asarray(thetalist).reshape(-1)]
        return uf_matrix('JS', (6, len(th)), th)

    def MatrixLog6(X):
        cells = [T.SR.lift(x) for x in npx.asarray(X).reshape(-1)]
        L = uf_matrix('LOG6', (4, 4), cells)
        return L

    for nm, f in (('FKinSpace', FKinSpace), ('JacobianSpace', JacobianSpace), ('MatrixLog6', MatrixLog6)):
        mod.__dict__['__real_' + nm] = mod.__dict__[nm]
        mod.__dict__[nm] = f
    mod.__dict__['__pyvc_ik_abstract'] = True


def error_twist(mod, ee_home, screw_list, ee_goal, theta):
    ee = mod.FKinSpace(ee_home, screw_list, theta)
    return npx.dot(mod.Adjoint(ee), mod.se3ToVec(mod.MatrixLog6(npx.dot(mod.TransInv(ee), ee_goal))))


def norms(E):
    return npx.norm(E[0:3]), npx.norm(E[3:6])


class _SolverBase(Contract):
    prop = 'C07'
    n = 2
    max_paths = 60
    shape_bound = 'chains of 2 joints (the invariant itself is independent of the chain length)'

    def inputs(self, g):
        n = self.n
        self.S = g.arr([g.reals('S%d_' % k, n) for k in range(6)])
        self.M = g.arr([g.reals('M%d_' % k, 4) for k in range(4)])
        self.G = g.arr([g.reals('G%d_' % k, 4) for k in range(4)])
        self.th0 = g.arr(g.reals('t', n))
        self.pos_tol = g.real('postol', lo=1e-9, hi=1e-2)
        self.rot_tol = g.real('rottol', lo=1e-9, hi=1e-2)
        self.maxit = g.real('maxit', lo=0.0, hi=100.0)


class IK_constrained_solver(_SolverBase):
    """IKinSpaceConstrained: success => |angular part of the error twist| <= rotation tolerance and |linear part| <=
    position tolerance for the returned joint vector, which lies inside the joint limits (start inside the limits)"""
    target = FHP + ':IKinSpaceConstrained'

    def prepare(self):
        me = self

        def inv(L):
            mod = loader.load(FHP)
            E = error_twist(mod, L['ee_home'], L['screw_list'], L['ee_goal'], L['theta_list'])
            nw, nv = norms(E)
            out = [('error vector is the error of the current joint vector [%d]' % k, T.eq(L['error_vec'][k], E[k])) for k in range(6)]
            bad = T.sor(T.lt(L['rotation_tolerance'], nw), T.lt(L['position_tolerance'], nv))
            out.append(('error flag <=> an error norm exceeds its own tolerance', T.SB_lift(L['error_bool']) == bad))
            for j in range(me.n):
                out.append(('joint %d within its limits' % j, T.sand(T.le(L['joint_mins'][j], L['theta_list'][j]),
                                                                      T.le(L['theta_list'][j], L['joint_maxs'][j]))))
            return out
        loops.register(FHP, 'IKinSpaceConstrained', 0, loops.LoopSpec(inv, name='Newton iteration with clamping'))
        install_abstractions(loader.load(FHP))

    def setup(self, g):
        self.inputs(g)
        n = self.n
        self.lo = g.arr(g.reals('lo', n, lo=-4.0, hi=0.0))
        self.hi = g.arr(g.reals('hi', n, lo=0.0, hi=4.0))
        for j in range(n):
            g.require(self.lo[j] <= self.th0[j])
            g.require(self.th0[j] <= self.hi[j])
        return (self.S, self.M, self.G, self.th0, self.pos_tol, self.rot_tol, self.lo, self.hi, self.maxit), {}

    def post(self, g, res, args, kwargs):
        theta, success = res
        if g.symbolic:
            mod = loader.load(FHP)
            E = error_twist(mod, self.M, self.S, self.G, theta)
            nw, nv = norms(E)
            ok = T.sand(T.le(nw, self.rot_tol), T.le(nv, self.pos_tol))
            g.holds('success => orientation error <= rotation tolerance and position error <= position tolerance',
                    T.implies(T.SB_lift(success), ok))
            for j in range(self.n):
                g.holds('returned joint %d inside its limits' % j, T.sand(T.le(self.lo[j], theta[j]), T.le(theta[j], self.hi[j])))
        else:
            raise NotImplementedError


@register
class IK_free_solver(_SolverBase):
    """IKinSpace (port of the reference): success => |angular part| <= eomg and |linear part| <= ev"""
    target = MR + ':IKinSpace'

    def prepare(self):
        def inv(L):
            mod = loader.load(MR)
            E = error_twist(mod, L['M'], L['Slist'], L['T'], L['thetalist'])
            nw, nv = norms(E)
            out = [('Vs is the error twist of the current joint vector [%d]' % k, T.eq(L['Vs'][k], E[k])) for k in range(6)]
            bad = T.sor(T.lt(L['eomg'], nw), T.lt(L['ev'], nv))
            out.append(('err <=> an error norm exceeds its own tolerance', T.SB_lift(L['err']) == bad))
            return out
        loops.register(MR, 'IKinSpace', 0, loops.LoopSpec(inv, name='Newton iteration'))
        install_abstractions(loader.load(MR))

    def setup(self, g):
        self.inputs(g)
        return (self.S, self.M, self.G, self.th0, self.rot_tol, self.pos_tol, self.maxit), {}

    def post(self, g, res, args, kwargs):
        theta, success = res
        mod = loader.load(MR)
        E = error_twist(mod, self.M, self.S, self.G, theta)
        nw, nv = norms(E)
        g.holds('success => |angular error| <= eomg and |linear error| <= ev',
                T.implies(T.SB_lift(success), T.sand(T.le(nw, self.rot_tol), T.le(nv, self.pos_tol))))


register(type('IK_constrained_solver_1', (IK_constrained_solver,), dict(n=1, shape_bound='1 joint (invariant independent of chain length)')))
register(type('IK_constrained_solver_2', (IK_constrained_solver,), dict(n=2, tier='thorough')))
