"""L3 contracts: Stewart platform (properties C09, C10, C11)."""
import numpy as _np
from pyvc.contract import Contract, register
from pyvc import spec as S
from pyvc import terms as T
from pyvc import stubs, npx, loader
from .l1_tm import TMM, BH, MR
from .l2_screw_wrench import frame

SPM = 'basic_robotics.kinematics.sp_model'
FHP = 'basic_robotics.general.faser_high_performance'
ZONE = ' [a rotation vector of norm below 1e-6 went through the exponential cut-off]'


def zone(g):
    if g.symbolic and stubs.ghost_of(g.ctx).cutoff_hits:
        return ZONE
    return ''


def sym_joints(g, name):
    return g.arr([g.reals('%s%d_' % (name, k), 6, scale=1.0) for k in range(3)])


def pose(g, name):
    q = g.unit(name + 'q', 4)
    p = g.reals(name + 'p', 3, scale=2.0)
    return S.RpT(S.Rq(q), p)


def spec_ik(Tb, Tt, bj, tj):
    """leg i runs from Tb b_i to Tt t_i"""
    B = [S.mm(Tb[0:3, 0:3], bj[:, i]) + Tb[0:3, 3] for i in range(6)]
    Tp = [S.mm(Tt[0:3, 0:3], tj[:, i]) + Tt[0:3, 3] for i in range(6)]
    L = [S.norm(list(Tp[i] - B[i])) for i in range(6)]
    return L, B, Tp


class SPC(Contract):
    tol = 1e-9
    max_paths = 200
    timeout = 40.0

    def prepare(self):
        stubs.install()

    def setup(self, g):
        return (), {}


@register
class SP_IK_kernel(SPC):
    """SPIKinSpace for ANY joint tables and ANY plate poses in SE(3): leg lengths are the distances between the
    plate-fixed joint points moved by the plate poses, the joint tables are those points, and moving both plates by
    one rigid motion G leaves the lengths unchanged"""
    prop = 'C09'
    target = FHP + ':SPIKinSpace'
    under_contract = (FHP + ':TrVec',)

    def run(self, g, fn, args, kwargs):
        Tb, Tt = pose(g, 'b'), pose(g, 't')
        bj, tj = sym_joints(g, 'B'), sym_joints(g, 'T')
        G = pose(g, 'G')
        r1 = fn(Tb, Tt, bj.copy(), tj.copy(), npx.zeros((3, 6)) if g.symbolic else _np.zeros((3, 6)),
                npx.zeros((3, 6)) if g.symbolic else _np.zeros((3, 6)))
        r2 = fn(S.mm(G, Tb), S.mm(G, Tt), bj.copy(), tj.copy(), npx.zeros((3, 6)) if g.symbolic else _np.zeros((3, 6)),
                npx.zeros((3, 6)) if g.symbolic else _np.zeros((3, 6)))
        return r1, r2, Tb, Tt, bj, tj

    def post(self, g, out, args, kwargs):
        (L1, B1, T1), (L2, B2, T2), Tb, Tt, bj, tj = out
        L, B, Tp = spec_ik(Tb, Tt, bj, tj)
        for i in range(6):
            g.eq('leg %d length = distance between its joint points' % i, L1[i, 0], L[i])
            g.eq('bottom joint %d in space = bottom pose applied to the plate-fixed point' % i, B1[:, i], B[i])
            g.eq('top joint %d in space = top pose applied to the plate-fixed point' % i, T1[:, i], Tp[i])
            g.eq('leg %d length is unchanged when both plates are moved by one rigid motion' % i, L2[i, 0], L1[i, 0])


def test_platform(g):
    """a fixed hexagonal platform with rational joint coordinates (bottom radius 2, top radius 1, plate thickness 0.1,
    neutral height 1.6), built through the real constructor"""
    spm = g.module(SPM)
    tm = g.module(TMM).tm
    bj = _np.array([[2.0, 1.2, -1.2, -2.0, -1.2, 1.2], [0.0, 1.6, 1.6, 0.0, -1.6, -1.6], [0.05] * 6])
    tj = _np.array([[0.8, 0.0, -0.8, -0.8, 0.0, 0.8], [0.6, 1.0, 0.6, -0.6, -1.0, -0.6], [-0.05] * 6])
    return spm.SP(bj, tj, tm(), tm([0.0, 0.0, 1.6, 0.0, 0.0, 0.0]), 1.0, 3.0, 0.1, 0.1, 'sp')


class _SPObj(SPC):
    def coherent(self, g, sp, Mb, Mt, label):
        bj, tj = sp._bottom_joints_local, sp._top_joints_local
        L, B, Tp = spec_ik(Mb, Mt, bj, tj)
        for i in range(6):
            g.eq(label + ': bottom joint %d = bottom pose applied to the plate-fixed point' % i, sp.getBottomJoints()[:, i], B[i])
            g.eq(label + ': top joint %d = top pose applied to the plate-fixed point' % i, sp.getTopJoints()[:, i], Tp[i])
            g.eq(label + ': leg %d length = joint-to-joint distance' % i, sp.getLens()[i, 0], L[i])
        g.eq(label + ': bottom pose recorded', sp.getBottomT().gTM(), Mb)
        g.eq(label + ': top pose recorded', sp.getTopT().gTM(), Mt)
        g.eq(label + ': relative plate transform = inv(bottom) top' + zone(g), sp.getCurrentLocalTransform().gTM(),
             S.mm(S.inv_SE3(Mb), Mt), tol=5e-6)


@register
class SP_leg_rates_kernel(SPC):
    """for ANY joint tables and plate poses with non-degenerate legs: the derivative of leg length i with respect to the
    spatial twist V of the top plate is [q_i x n_i, n_i] . V (q_i bottom joint in space, n_i unit leg direction) --
    the real IK kernel is executed on dual numbers with the top pose (I + eps [V]) T_top"""
    prop = 'C11'
    target = FHP + ':SPIKinSpace'
    timeout = 60.0

    def run(self, g, fn, args, kwargs):
        Tb, Tt = pose(g, 'b'), pose(g, 't')
        bj, tj = sym_joints(g, 'B'), sym_joints(g, 'T')
        V = g.reals('V', 6)
        L, B, Tp = spec_ik(Tb, Tt, bj, tj)
        for i in range(6):
            g.require(L[i] > 0.05)
        if not g.symbolic:
            return None
        dT = S.mm(S.hat6(V), Tt)
        Td = _np.empty((4, 4), dtype=object)
        for idx in _np.ndindex(4, 4):
            Td[idx] = T.Dual(Tt[idx], dT[idx])
        r = fn(Tb, Td.view(npx.SArr), bj.copy(), tj.copy(), npx.zeros((3, 6)), npx.zeros((3, 6)))
        dl = [r[0][i, 0].d for i in range(6)]
        return dl, L, B, Tp, V

    def post(self, g, out, args, kwargs):
        if out is None:
            return
        dl, L, B, Tp, V = out
        for i in range(6):
            n = (Tp[i] - B[i]) / L[i]
            row = list(S.cross3(B[i], n)) + list(n)
            g.eq('d(length %d)/d(twist) . V = [q x n, n] . V' % i, dl[i], S.dotv(row, list(V)))


@register
class SP_IK_coherent(_SPObj):
    """SP.IK(top, bottom, protect=True) for arbitrary plate poses: lengths returned = published lengths = geometry;
    published state coherent (joints, lengths, poses, relative transform)"""
    prop = ('C09', 'C10')
    tier = 'quick'
    target = SPM + ':SP.IK'
    under_contract = (SPM + ':SP._IKHelper', SPM + ':SP._setPlatePos', FHP + ':SPIKinSpace')
    shape_bound = 'one fixed hexagonal geometry (rational joint coordinates); all plate poses'

    def run(self, g, fn, args, kwargs):
        sp = test_platform(g)
        b, Mb = frame(g, 'b')
        t, Mt = frame(g, 't')
        lens, valid = sp.IK(top_plate_pos=t, bottom_plate_pos=b, protect=True)
        return sp, lens, valid, Mb, Mt

    def post(self, g, out, args, kwargs):
        sp, lens, valid, Mb, Mt = out
        g.eq('returned lengths = published lengths', lens, sp.getLens())
        self.coherent(g, sp, Mb, Mt, 'after IK')


@register
class SP_move_coherent(_SPObj):
    """SP.move(new base) keeps the relative plate pose and the state coherent"""
    prop = 'C10'
    tier = 'quick'
    target = SPM + ':SP.move'
    shape_bound = 'one fixed hexagonal geometry (rational joint coordinates); all base poses'

    def run(self, g, fn, args, kwargs):
        sp = test_platform(g)
        Mb0, Mt0 = sp.getBottomT().gTM().copy(), sp.getTopT().gTM().copy()
        nb, Mn = frame(g, 'n')
        sp.move(nb, protect=True)
        return sp, Mn, Mb0, Mt0

    def post(self, g, out, args, kwargs):
        sp, Mn, Mb0, Mt0 = out
        rel = S.mm(S.inv_SE3(Mb0), Mt0)
        z = zone(g)
        g.eq('bottom pose = the new base' + z, sp.getBottomT().gTM(), Mn)
        g.eq('top pose = new base times the previous relative plate pose' + z, sp.getTopT().gTM(), S.mm(Mn, rel), tol=5e-6)
        if not z:
            self.coherent(g, sp, sp.getBottomT().gTM(), sp.getTopT().gTM(), 'after move')


@register
class SP_inverseJacobian(_SPObj):
    """inverseJacobian(): row i is [q_i x n_i, n_i] (bottom joint q_i, unit leg direction n_i); it equals the derivative
    of the leg lengths with respect to the spatial twist of the top plate (dual-number execution of the IK kernel);
    the query leaves both plate poses and the published state unchanged"""
    prop = ('C11', 'C10')
    tier = 'quick'
    target = SPM + ':SP.inverseJacobian'
    shape_bound = 'one fixed hexagonal geometry (rational joint coordinates); all plate poses'
    timeout = 60.0

    def run(self, g, fn, args, kwargs):
        sp = test_platform(g)
        b, Mb = frame(g, 'b')
        t, Mt = frame(g, 't')
        sp.IK(top_plate_pos=t, bottom_plate_pos=b, protect=True)
        for i in range(6):
            g.require(sp.getLens()[i, 0] > 0.05)
        before = (sp.getBottomT().gTM().copy(), sp.getTopT().gTM().copy(), sp.getLens().copy())
        J = sp.inverseJacobian(protect=True)
        after = (sp.getBottomT().gTM().copy(), sp.getTopT().gTM().copy(), sp.getLens().copy())
        # history: the same relative plate pose re-placed under another base (pure translation d): the second query must
        # describe the NEW state (no stale result keyed on the relative pose)
        d = g.reals('m', 3, scale=2.0)
        Sh = S.RpT(S.eye(3, Mb), d)
        tmc = g.module(TMM).tm
        sp.IK(top_plate_pos=tmc(S.mm(Sh, Mt)), bottom_plate_pos=tmc(S.mm(Sh, Mb)), protect=True)
        self.J2 = sp.inverseJacobian(protect=True)
        self.shift = Sh
        sp.IK(top_plate_pos=t, bottom_plate_pos=b, protect=True)
        # derivative of the leg lengths: top pose (I + eps [V]) T_top, through the real kernel on dual numbers
        dl = None
        if g.symbolic:
            V = g.reals('V', 6)
            VX = S.hat6(V)
            dT = S.mm(VX, Mt)
            Td = _np.empty((4, 4), dtype=object)
            for idx in _np.ndindex(4, 4):
                Td[idx] = T.Dual(Mt[idx], dT[idx])
            fhp = g.module(FHP)
            r = fhp.SPIKinSpace(Mb, Td.view(npx.SArr), sp._bottom_joints_local.copy(), sp._top_joints_local.copy(),
                                npx.zeros((3, 6)), npx.zeros((3, 6)))
            dl = [r[0][i, 0].d if isinstance(r[0][i, 0], T.Dual) else T.ZERO for i in range(6)]
            self.V = V
        return sp, J, before, after, Mb, Mt, dl

    def post(self, g, out, args, kwargs):
        sp, J, before, after, Mb, Mt, dl = out
        for nm, x, y in zip(('bottom pose', 'top pose', 'leg lengths'), before, after):
            g.eq('inverseJacobian leaves the %s unchanged' % nm, y, x)
        L, B, Tp = spec_ik(Mb, Mt, sp._bottom_joints_local, sp._top_joints_local)
        for i in range(6):
            n = (Tp[i] - B[i]) / L[i]
            g.eq('row %d = [q x n, n]' % i, J[i, :], S.arr(list(S.cross3(B[i], n)) + list(n)))
        L2, B2, Tp2 = spec_ik(S.mm(self.shift, Mb), S.mm(self.shift, Mt), sp._bottom_joints_local, sp._top_joints_local)
        for i in range(6):
            n2 = (Tp2[i] - B2[i]) / L2[i]
            g.eq('after re-placing the platform: row %d = [q x n, n] at the new state' % i, self.J2[i, :],
                 S.arr(list(S.cross3(B2[i], n2)) + list(n2)))
        if dl is not None:
            V = g.arr(self.V)
            for i in range(6):
                g.eq('d(length %d)/d(twist) . V = row %d . V' % (i, i), dl[i], S.dotv(list(J[i, :]), list(V)))


def move_by_contract(g, sp):
    """replace sp.move by its contract (SP_move_coherent): bottom pose = the new base, relative plate pose kept, joint
    tables in space / leg lengths / relative transform coherent with the plate-local tables CURRENTLY bound.
    The contract is proved for protect=True; spinCustom calls move unprotected, where it additionally runs validate():
    assumed to accept (the relative plate pose during a re-spin is the one the platform already had)."""
    tmc = g.module(TMM).tm

    def move(new_pos, protect=False):
        Mb0, Mt0 = sp.getBottomT().gTM(), sp.getTopT().gTM()
        rel = S.mm(S.inv_SE3(Mb0), Mt0)
        Mn = new_pos.gTM().copy()
        Mt = S.mm(Mn, rel)
        L, B, Tp = spec_ik(Mn, Mt, sp._bottom_joints_local, sp._top_joints_local)
        sp._current_plate_transform_local = tmc(rel)
        sp._base_pos_global = new_pos.copy()
        sp._end_effector_pos_global = tmc(Mt)
        sp._bottom_joints_space = S.arr([[B[i][k] for i in range(6)] for k in range(3)])
        sp._top_joints_space = S.arr([[Tp[i][k] for i in range(6)] for k in range(3)])
        sp.lengths = S.arr([[L[i]] for i in range(6)])
    sp.move = move


@register
class SP_spin_tables(_SPObj):
    """spinCustom(angle), checked against the contract of move (callee contract, not its body): the plate-local joint
    tables are the old ones turned by the angle about the plate normal (heights kept), the tables used by the Newton
    forward kinematics (captured at construction) describe the re-spun platform, the plate poses are unchanged and the
    published state is coherent with the new tables"""
    prop = ('C09', 'C10')
    tier = 'quick'
    target = SPM + ':SP.spinCustom'
    under_contract = (SPM + ':SP.move (by its contract SP_move_coherent)',)
    shape_bound = 'one fixed hexagonal geometry (rational joint coordinates); spin angle in [0.1, 3]; any base pose'
    timeout = 60.0

    def run(self, g, fn, args, kwargs):
        sp = test_platform(g)
        ang = g.real('a', lo=0.1, hi=3.0)
        b, Mb = frame(g, 'b')
        bj0, tj0 = sp._bottom_joints_local.copy(), sp._top_joints_local.copy()
        if g.symbolic:
            stubs.ghost_of(g.ctx).body_exp = True      # exp of the spin vector (0, 0, angle): the real body, not a fresh result
            move_by_contract(g, sp)
            sp.move(b)
        else:
            sp.move(b, protect=True)
        Mb0, Mt0 = sp.getBottomT().gTM().copy(), sp.getTopT().gTM().copy()
        sp.spinCustom(ang)
        return sp, ang, bj0, tj0, Mb0, Mt0

    def post(self, g, out, args, kwargs):
        sp, ang, bj0, tj0, Mb0, Mt0 = out
        z = zone(g)
        c, s_ = S.cos(ang), S.sin(ang)
        for nm, old, new in (('bottom', bj0, sp._bottom_joints_local), ('top', tj0, sp._top_joints_local)):
            for i in range(6):
                want = [c * old[0, i] - s_ * old[1, i], s_ * old[0, i] + c * old[1, i], old[2, i]]
                g.eq('%s joint %d: plate-local point turned by the angle about the plate normal%s' % (nm, i, z), new[:, i],
                     S.arr(want), tol=5e-6)
        g.eq('Newton-FK table of the bottom joints = current plate-local bottom joints', sp._bottom_joints_init, sp._bottom_joints_local.T)
        g.eq('Newton-FK table of the top joints = current plate-local top joints', sp._top_joints_init, sp._top_joints_local.T)
        g.eq('spinCustom leaves the bottom pose unchanged' + z, sp.getBottomT().gTM(), Mb0, tol=5e-6)
        g.eq('spinCustom leaves the top pose unchanged' + z, sp.getTopT().gTM(), Mt0, tol=5e-6)
        if not z:
            self.coherent(g, sp, sp.getBottomT().gTM(), sp.getTopT().gTM(), 'after spinCustom')


def _fk_probes():
    out = []
    goals = [(0.0, 0.0, 0.0, 0.2, -0.15, 0.1), (0.1, -0.05, 0.05, 0.1, 0.2, -0.1), (-0.12, 0.08, -0.08, -0.2, 0.05, 0.25),
             (0.0, 0.15, 0.1, 0.0, 0.0, 0.28)]
    for spin in (0.0, 0.6, -1.1):
        for mode in (0.0, 1.0):
            for k, gl in enumerate(goals):
                if (k + int(spin * 10) + int(mode)) % 2 and spin != 0.6:
                    continue        # thin out: every goal at spin 0.6, every other one elsewhere
                out.append(dict(spin=spin, mode=mode, moved=float(k % 2), explicit=0.0, gx=gl[0], gy=gl[1], gz=gl[2], rx=gl[3], ry=gl[4], rz=gl[5]))
    # FK given an explicit bottom pose other than the current one (the platform stands at the origin)
    for mode in (0.0, 1.0):
        gl = goals[1]
        out.append(dict(spin=0.0, mode=mode, moved=0.0, explicit=1.0, gx=gl[0], gy=gl[1], gz=gl[2], rx=gl[3], ry=gl[4], rz=gl[5]))
    return out


@register
class SP_FK_inverts_IK_probes(SPC):
    """BOUNDED native stand-in (probes; never counted as proved): forward kinematics of the IK lengths of an in-workspace
    pose, started from the neutral pose, recovers the pose and reports the requested lengths -- both FK solvers,
    platforms at the origin and moved, re-spun by 0 / 0.6 / -1.1 rad.  Convergence of Newton-Raphson / fsolve is outside
    the reach of contracts (DESIGN section 5); this runs the listed inputs on the native code only."""
    prop = ('C09', 'C10')
    target = SPM + ':SP.FK'
    tol = 1e-3
    probes = _fk_probes()
    shape_bound = 'probes: %d listed (geometry, spin, solver, pose) inputs on the native code' % len(probes)

    def run(self, g, fn, args, kwargs):
        v = {k: g.real(k, lo=-2.0, hi=2.0) for k in ('spin', 'mode', 'moved', 'explicit', 'gx', 'gy', 'gz', 'rx', 'ry', 'rz')}
        if g.mode != 'concrete':
            return None
        spm = g.module(SPM)
        tm = g.module(TMM).tm
        base = tm([0.4, -0.3, 0.2, 0.1, -0.2, 0.3]) if v['moved'] > 0.5 else tm()
        sp = spm.newSP(1.0, 0.6, 12, 20, 0.05, 0.04, 1, 1, 1, 1, 0.2, 0.2, 1.0, 1.8, base, 'probe')
        if abs(v['spin']) > 0:
            sp.spinCustom(float(v['spin']))
        h = sp._nominal_height
        rel = tm([v['gx'], v['gy'], h * (1 + v['gz']), v['rx'], v['ry'], v['rz']])
        goal = sp.getBottomT() @ rel
        sp.IK(goal)
        if not sp.validate(True):
            from pyvc.contract import Reject
            raise Reject('pose outside the workspace')
        L = _np.array(sp.getLens(), dtype=float).copy()
        sp.IK(sp.getBottomT() @ sp._nominal_plate_transform)
        self.bottom_expected = sp.getBottomT().copy()
        if v['explicit'] > 0.5:
            other = tm([0.4, -0.3, 0.2, 0.1, -0.2, 0.3])
            goal = other @ rel
            self.bottom_expected = other.copy()
            sp.FK(L.copy(), plate_pos=other.copy(), fk_mode=int(round(v['mode'])))
        else:
            sp.FK(L.copy(), fk_mode=int(round(v['mode'])))
        return sp, goal, L, h

    def post(self, g, out, args, kwargs):
        if out is None:
            g.holds('probe-only contract: %d inputs are run on the native code' % len(self.probes), len(self.probes) > 0)
            return
        sp, goal, L, h = out
        g.eq('FK of the IK lengths recovers the pose (to 1e-3 of the neutral height)', sp.getTopT().gTM() / h, goal.gTM() / h)
        g.eq('lengths reported after FK are the requested ones', _np.array(sp.getLens(), dtype=float).reshape(-1) / h, L.reshape(-1) / h)
        Mb, Mt = _np.array(sp.getBottomT().gTM(), dtype=float), _np.array(sp.getTopT().gTM(), dtype=float)
        g.eq('after FK the published bottom pose is the one FK was asked to use', Mb / h, _np.array(self.bottom_expected.gTM(), dtype=float) / h)
        bj, tj = _np.array(sp._bottom_joints_local, dtype=float), _np.array(sp._top_joints_local, dtype=float)
        g.eq('after FK the bottom joints = bottom pose applied to the plate-fixed points',
             _np.array(sp.getBottomJoints(), dtype=float) / h, (Mb[0:3, 0:3] @ bj + Mb[0:3, 3:4]) / h)
        g.eq('after FK the top joints = top pose applied to the plate-fixed points',
             _np.array(sp.getTopJoints(), dtype=float) / h, (Mt[0:3, 0:3] @ tj + Mt[0:3, 3:4]) / h)


@register
class SP_inverseJacobian_hypothetical_pose(_SPObj):
    """inverseJacobian(top, bottom) asked for plate poses OTHER than the current ones: the rows describe the poses asked
    for, and afterwards both plate poses are the ones the platform had before and the published joint tables, lengths
    and relative transform are coherent with them (a pure query, also with explicit arguments)"""
    prop = ('C10', 'C11')
    tier = 'quick'
    general_hypothetical = False
    target = SPM + ':SP.inverseJacobian'
    shape_bound = 'one fixed hexagonal geometry (rational joint coordinates); all current plate poses; poses asked for: unrotated plates at all positions'
    timeout = 60.0

    def run(self, g, fn, args, kwargs):
        sp = test_platform(g)
        b, Mb = frame(g, 'b')
        t, Mt = frame(g, 't')
        sp.IK(top_plate_pos=t, bottom_plate_pos=b, protect=True)
        if self.general_hypothetical:
            b2, Mb2 = frame(g, 'c')
            t2, Mt2 = frame(g, 'u')
        else:
            # quick tier: the poses asked for are unrotated plates at arbitrary positions (no conversion forks)
            tmc = g.module(TMM).tm
            Mb2 = S.RpT(S.eye(3, Mb), g.reals('cp', 3, scale=1.0))
            Mt2 = S.RpT(S.eye(3, Mb), g.reals('up', 3, scale=2.0))
            b2, t2 = tmc(Mb2.copy()), tmc(Mt2.copy())
        L2, B2, Tp2 = spec_ik(Mb2, Mt2, sp._bottom_joints_local, sp._top_joints_local)
        for i in range(6):
            g.require(L2[i] > 0.05)
        J = sp.inverseJacobian(top_plate_pos=t2, bottom_plate_pos=b2, protect=True)
        return sp, J, Mb, Mt, (L2, B2, Tp2)

    def post(self, g, out, args, kwargs):
        sp, J, Mb, Mt, (L2, B2, Tp2) = out
        for i in range(6):
            n = (Tp2[i] - B2[i]) / L2[i]
            g.eq('row %d = [q x n, n] at the poses asked for' % i, J[i, :], S.arr(list(S.cross3(B2[i], n)) + list(n)))
        z = zone(g)
        g.eq('after the query the bottom pose is the one the platform had' + z, sp.getBottomT().gTM(), Mb)
        g.eq('after the query the top pose is the one the platform had' + z, sp.getTopT().gTM(), Mt)
        if not z:
            self.coherent(g, sp, Mb, Mt, 'after the query')


register(type('SP_inverseJacobian_hypothetical_pose_general', (SP_inverseJacobian_hypothetical_pose,),
              dict(tier='thorough', general_hypothetical=True,
                   shape_bound='one fixed hexagonal geometry (rational joint coordinates); all current and all hypothetical plate poses')))
