"""C08 -- rigid-body dynamics are physically consistent (contracts on the ported Newton-Euler functions)."""
import numpy as _np
from pyvc.contract import Contract, register
from pyvc import spec as S
from pyvc import terms as T
from pyvc import npx
from .rel_mr import MR, _dyn_args


class Dyn(Contract):
    prop = 'C08'
    n = 1
    tol = 1e-7
    max_paths = 120
    timeout = 40.0

    @property
    def shape_bound(self):
        return '%d revolute joint(s), unit axes, translated link frames, diagonal spatial inertias diag(Ixx,Iyy,Izz,m,m,m) > 0' % self.n

    def setup(self, g):
        return (), {}


class _Decomp(Dyn):
    """joint torque decomposes as M(q) qdd + c(q, qd) + g(q) + J^T F_tip, the mass matrix is symmetric, and forward
    dynamics inverts inverse dynamics"""
    target = MR + ':InverseDynamics'
    under_contract = (MR + ':MassMatrix', MR + ':VelQuadraticForces', MR + ':GravityForces', MR + ':EndEffectorForces',
                      MR + ':ForwardDynamics')

    def run(self, g, fn, args, kwargs):
        mr = g.module(MR)
        n = self.n
        th, dth, ddth, grav, F, Ml, Gl, Sl = _dyn_args(g, n, 'InverseDynamics')
        cp = lambda x: x.copy() if isinstance(x, _np.ndarray) else [y.copy() for y in x]
        tau = mr.InverseDynamics(cp(th), cp(dth), cp(ddth), cp(grav), cp(F), cp(Ml), cp(Gl), cp(Sl))
        M = mr.MassMatrix(cp(th), cp(Ml), cp(Gl), cp(Sl))
        c = mr.VelQuadraticForces(cp(th), cp(dth), cp(Ml), cp(Gl), cp(Sl))
        gq = mr.GravityForces(cp(th), cp(grav), cp(Ml), cp(Gl), cp(Sl))
        ft = mr.EndEffectorForces(cp(th), cp(F), cp(Ml), cp(Gl), cp(Sl))
        acc = mr.ForwardDynamics(cp(th), cp(dth), tau.copy(), cp(grav), cp(F), cp(Ml), cp(Gl), cp(Sl))
        return tau, M, c, gq, ft, acc, ddth, dth

    def post(self, g, out, args, kwargs):
        tau, M, c, gq, ft, acc, ddth, dth = out
        n = self.n
        g.eq('tau = M qdd + c + g + J^T F', tau, S.mm(M, ddth) + c + gq + ft)
        g.eq('mass matrix symmetric', M, M.T)
        g.eq('forward dynamics inverts inverse dynamics', acc, ddth)
        if n == 1:
            g.holds('mass matrix positive (1 joint)', 0 < M[0, 0] if not g.symbolic else T.lt(0, M[0, 0]))
        else:
            if g.symbolic:
                g.holds('mass matrix: positive diagonal', T.sand(*[T.lt(0, M[i, i]) for i in range(n)]))
                g.holds('mass matrix: positive determinant (2 joints)', T.lt(0, M[0, 0] * M[1, 1] - M[0, 1] * M[1, 0]))


register(type('Dyn_decomposition_1', (_Decomp,), dict(n=1)))
register(type('Dyn_decomposition_2', (_Decomp,), dict(n=2, tier='off', timeout=120.0)))   # not decided within 2 h


class _Passivity(Dyn):
    """the velocity-product term only exchanges kinetic energy: qd . c(q, qd) = 1/2 qd^T Mdot qd, with Mdot obtained by
    executing the real MassMatrix on dual numbers along qd"""
    target = MR + ':VelQuadraticForces'
    under_contract = (MR + ':MassMatrix',)

    def run(self, g, fn, args, kwargs):
        mr = g.module(MR)
        n = self.n
        th, dth, ddth, grav, F, Ml, Gl, Sl = _dyn_args(g, n, 'InverseDynamics')
        for k in range(n):
            g.require(th[k] >= 0.01)          # outside the exponential's cut-off, where FK is differentiable
        cp = lambda x: x.copy() if isinstance(x, _np.ndarray) else [y.copy() for y in x]
        c = mr.VelQuadraticForces(cp(th), cp(dth), cp(Ml), cp(Gl), cp(Sl))
        if not g.symbolic:
            # native replay: Mdot along qd by central differences
            h = 1e-6
            Mp = mr.MassMatrix(_np.array(th) + h * _np.array(dth), cp(Ml), cp(Gl), cp(Sl))
            Mm = mr.MassMatrix(_np.array(th) - h * _np.array(dth), cp(Ml), cp(Gl), cp(Sl))
            return c, (Mp - Mm) / (2 * h), dth
        thd = _np.empty(n, dtype=object)
        for k in range(n):
            thd[k] = T.Dual(th[k], dth[k])
        Md = mr.MassMatrix(thd.view(npx.SArr), cp(Ml), cp(Gl), cp(Sl))
        Mdot = _np.empty((n, n), dtype=object)
        for idx in _np.ndindex(n, n):
            x = Md[idx]
            Mdot[idx] = x.d if isinstance(x, T.Dual) else T.ZERO
        return c, npx.S(Mdot), dth

    def post(self, g, out, args, kwargs):
        if out is None:
            return
        c, Mdot, dth = out
        n = self.n
        lhs = S.dotv(list(dth), list(c))
        quad = 0 * dth[0]
        for i in range(n):
            for j in range(n):
                quad = quad + dth[i] * Mdot[i, j] * dth[j]
        g.eq('qd . c = 1/2 qd^T Mdot qd', lhs, quad / 2, tol=None if g.symbolic else 1e-5)


register(type('Dyn_passivity_1', (_Passivity,), dict(n=1)))
# fully symbolic 2-joint passivity: the identity has > 400 000 monomials, undecided by every back end (ring reduction
# and both solvers time out): switched off rather than left to report 'undecided'; the fixed-geometry 2R contract
# below carries the clause
register(type('Dyn_passivity_2', (_Passivity,), dict(n=2, tier='off', timeout=120.0)))


def _fixed_geom_args(g, n=2):
    """a fixed 2R geometry with rational data (axes z and y, offset link frames, distinct diagonal inertias);
    joint positions, velocities, accelerations, gravity and tip wrench are symbolic"""
    from .rel_mr import vec
    th = g.arr(g.reals('t', n, lo=0.01, hi=3.0))
    dth, ddth = vec(g, 'd', n, 1.0), vec(g, 'a', n, 1.0)
    grav, F = vec(g, 'g', 3, 5.0), vec(g, 'F', 6, 2.0)
    z = 0 * th[0]

    def const(x):
        return g.arr(x) if not g.symbolic else npx.array(x, dtype=float)
    Ml = [const([[1, 0, 0, 0.5], [0, 1, 0, 0.0], [0, 0, 1, 0.25], [0, 0, 0, 1]]),
          const([[1, 0, 0, 0.75], [0, 1, 0, 0.0], [0, 0, 1, 0.5], [0, 0, 0, 1]]),
          const([[1, 0, 0, 0.5], [0, 1, 0, 0.25], [0, 0, 1, 0.0], [0, 0, 0, 1]])]
    Gl = [const(_np.diag([0.5, 0.75, 1.0, 2.0, 2.0, 2.0]).tolist()), const(_np.diag([0.25, 0.5, 0.375, 1.5, 1.5, 1.5]).tolist())]
    Sl = const([[0, 0], [0, 1], [1, 0], [0, -0.75], [0, 0], [0, 1.25]])
    return th, dth, ddth, grav, F, Ml, Gl, Sl


class _DecompFixed(_Decomp):
    """as Dyn_decomposition for a fixed 2R geometry (rational data) and symbolic motion, gravity and tip wrench: catches
    what a single joint cannot show (velocity-product and propagation terms between links)"""
    n = 2
    shape_bound = 'one fixed 2R geometry (axes z and y, rational link offsets and inertias); all joint states, gravity vectors and wrenches'

    def run(self, g, fn, args, kwargs):
        import contracts.dyn as me
        orig = me._dyn_args
        me._dyn_args = lambda g_, n_, which: _fixed_geom_args(g_, 2)
        try:
            return _Decomp.run(self, g, fn, args, kwargs)
        finally:
            me._dyn_args = orig


class _PassivityFixed(_Passivity):
    """passivity identity for the fixed 2R geometry"""
    n = 2
    shape_bound = _DecompFixed.shape_bound

    def run(self, g, fn, args, kwargs):
        import contracts.dyn as me
        orig = me._dyn_args
        me._dyn_args = lambda g_, n_, which: _fixed_geom_args(g_, 2)
        try:
            return _Passivity.run(self, g, fn, args, kwargs)
        finally:
            me._dyn_args = orig


register(type('Dyn_decomposition_2R_fixed', (_DecompFixed,), dict()))
register(type('Dyn_passivity_2R_fixed', (_PassivityFixed,), dict()))


@register
class Dyn_integer_joint_arrays_probe(Dyn):
    """bounded native stand-in (probes): the decomposition and the agreement of InverseDynamics with its derived
    functions also hold when the joint positions are handed over as INTEGER-typed arrays (whole-radian poses) -- dtype
    effects are outside the real-number model, where every array is a real array"""
    target = MR + ':InverseDynamics'
    n = 2
    probes = [dict(q0=0.0, q1=0.0), dict(q0=1.0, q1=-2.0), dict(q0=3.0, q1=1.0)]
    shape_bound = 'probes: three integer joint vectors on the fixed 2R geometry, native code'

    def run(self, g, fn, args, kwargs):
        mr = g.module(MR)
        q = [g.real('q0', lo=-3.0, hi=3.0), g.real('q1', lo=-3.0, hi=3.0)]
        th, dth, ddth, grav, F, Ml, Gl, Sl = _fixed_geom_args(g, 2)
        if g.mode != 'concrete':
            return None
        qi = _np.array([int(round(q[0])), int(round(q[1]))], dtype=int)
        qf = qi.astype(float)
        cp = lambda x: x.copy() if isinstance(x, _np.ndarray) else [y.copy() for y in x]
        out = []
        for qq in (qi, qf):
            tau = mr.InverseDynamics(qq.copy(), cp(dth), cp(ddth), cp(grav), cp(F), cp(Ml), cp(Gl), cp(Sl))
            M = mr.MassMatrix(qq.copy(), cp(Ml), cp(Gl), cp(Sl))
            out.append((_np.array(tau, dtype=float), _np.array(M, dtype=float)))
        return out

    def post(self, g, out, args, kwargs):
        if out is None:
            g.holds('probe-only contract: %d integer joint vectors are run on the native code' % len(self.probes), len(self.probes) > 0)
            return
        (tau_i, M_i), (tau_f, M_f) = out
        g.eq('InverseDynamics(integer-typed q) = InverseDynamics(float q)', tau_i, tau_f)
        g.eq('MassMatrix(integer-typed q) = MassMatrix(float q)', M_i, M_f)


# -- Arm-level wrappers ---------------------------------------------------------------------------------
ARM = 'basic_robotics.kinematics.arm_model'
TMM = 'basic_robotics.general.faser_transform'


class _ArmDyn(Dyn):
    """the Arm-level dynamics entry points on an arm given explicit spatial inertias through the public setters equal the
    kernel functions applied to the arm's own link frames, inertias and screws -- so the kernel-level identities (Dyn_*)
    hold for the arm: inverseDynamicsEMR and the library's own Newton-Euler recursion (inverseDynamics) both equal
    InverseDynamics, massMatrix (sum of J_i^T G_i J_i over the link Jacobians) equals MassMatrix, forwardDynamics equals
    ForwardDynamics for the gravity vector actually passed (including the zero vector), and after the inertias are
    re-assigned through the setter the mass matrix is that of the new inertias"""
    target = ARM + ':Arm.inverseDynamics'
    under_contract = (ARM + ':Arm.inverseDynamicsEMR', ARM + ':Arm.massMatrix', ARM + ':Arm.forwardDynamics',
                      ARM + ':Arm.jacobianLink', ARM + ':Arm.setMassProperties', MR + ':InverseDynamics',
                      MR + ':MassMatrix', MR + ':ForwardDynamics')
    n = 2
    shape_bound = _DecompFixed.shape_bound + '; arm at the identity base'
    timeout = 60.0
    max_paths = 200

    def prepare(self):
        from pyvc import stubs
        stubs.install()

    def run(self, g, fn, args, kwargs):
        from pyvc import stubs
        th, dth, ddth, grav, F, Ml, Gl, Sl = _fixed_geom_args(g, 2)
        if g.symbolic:
            gh = stubs.ghost_of(g.ctx)
            gh.body_exp = True
            gh.body_log = False
        mr = g.module(MR)
        tm = g.module(TMM).tm
        mk = (lambda x: npx.array(x, dtype=float)) if g.symbolic else (lambda x: _np.array(x, dtype=float))
        cp = lambda x: x.copy() if isinstance(x, _np.ndarray) else [y.copy() for y in x]
        home = tm(mk([[1, 0, 0, 1.75], [0, 1, 0, 0.25], [0, 0, 1, 0.75], [0, 0, 0, 1]]))
        jp = mk([[0, 1.25], [0, 0], [0, 0.75]])
        arm = g.module(ARM).Arm(tm(), cp(Sl), home, jp)
        T1 = mk([[1, 0, 0, 0.5], [0, 1, 0, 0.0], [0, 0, 1, 0.25], [0, 0, 0, 1]])
        T2 = mk([[1, 0, 0, 1.25], [0, 1, 0, 0.0], [0, 0, 1, 0.75], [0, 0, 0, 1]])
        arm.setOrigins(link_homes_global=[tm(T1), tm(T2)])
        Garr = mk([_np.array(x, dtype=object).tolist() if g.symbolic else x.tolist() for x in Gl]) if False else None
        if g.symbolic:
            Garr = npx.array([[[Gl[k][i, j] for j in range(6)] for i in range(6)] for k in range(2)], dtype=float)
        else:
            Garr = _np.array([_np.array(x, dtype=float) for x in Gl])
        arm.setMassProperties(mk([2.0, 1.5]), [tm(cp(m)) for m in Ml], Garr.copy())
        Marr = npx.array([[[Ml[k][i, j] for j in range(4)] for i in range(4)] for k in range(3)], dtype=float) if g.symbolic \
            else _np.array([_np.array(x, dtype=float) for x in Ml])
        out = {}
        Fc = F.reshape((6,)) if F.ndim > 1 else F
        out['ker_id'] = mr.InverseDynamics(cp(th), cp(dth), cp(ddth), cp(grav), cp(Fc), Marr.copy(), Garr.copy(), cp(Sl))
        out['emr'] = arm.inverseDynamicsEMR(cp(th), cp(dth), cp(ddth), cp(grav), cp(Fc))
        out['own'] = arm.inverseDynamics(cp(th), cp(dth), cp(ddth), cp(grav), cp(Fc).reshape((6, 1)))[0]
        out['ker_M'] = mr.MassMatrix(cp(th), Marr.copy(), Garr.copy(), cp(Sl))
        out['M'] = arm.massMatrix(cp(th))
        tau = g.arr(g.reals('u', 2, scale=2.0))
        out['ker_fd'] = mr.ForwardDynamics(cp(th), cp(dth), cp(tau), cp(grav), cp(Fc), Marr.copy(), Garr.copy(), cp(Sl))
        out['fd'] = arm.forwardDynamics(cp(th), cp(dth), cp(tau), cp(grav), cp(Fc))
        # the arm's default gravity is given components along every axis so that 'zero was replaced by the default' shows in
        # the torques of this geometry (its second link's centre of gravity lies on the second joint axis)
        arm.grav = mk([1.5, -2.0, -9.81])
        zero = 0 * grav
        out['ker_fd0'] = mr.ForwardDynamics(cp(th), cp(dth), cp(tau), zero.copy(), cp(Fc), Marr.copy(), Garr.copy(), cp(Sl))
        out['fd0'] = arm.forwardDynamics(cp(th), cp(dth), cp(tau), zero.copy(), cp(Fc))
        # history: the inertias are re-assigned through the public setter after a query at the same configuration
        G2 = Garr.copy()
        G2[0, 3, 3] = G2[0, 3, 3] + 1
        G2[0, 4, 4] = G2[0, 4, 4] + 1
        G2[0, 5, 5] = G2[0, 5, 5] + 1
        G2[1, 0, 0] = G2[1, 0, 0] + 0.5
        arm.setMassProperties(box_spatial_links=G2.copy())
        out['ker_M2'] = mr.MassMatrix(cp(th), Marr.copy(), G2.copy(), cp(Sl))
        out['M2'] = arm.massMatrix(cp(th))
        return out

    def post(self, g, out, args, kwargs):
        def r(x):
            x = npx.asarray(x) if g.symbolic else _np.asarray(x)
            return x.reshape(-1)
        ok = r(out['emr']).shape == r(out['ker_id']).shape
        g.holds('inverseDynamicsEMR returns one torque per joint', ok)
        if ok:
            g.eq('inverseDynamicsEMR = InverseDynamics on the arm\'s link frames, inertias and screws', r(out['emr']), r(out['ker_id']))
        g.eq('inverseDynamics (own Newton-Euler recursion) = InverseDynamics', r(out['own']), r(out['ker_id']))
        g.eq('massMatrix (sum over links of J_i^T G_i J_i) = MassMatrix', out['M'], out['ker_M'])
        g.eq('forwardDynamics = ForwardDynamics for the gravity vector passed', r(out['fd']), r(out['ker_fd']))
        g.eq('forwardDynamics with an explicit zero gravity vector = ForwardDynamics without gravity', r(out['fd0']), r(out['ker_fd0']))
        g.eq('after the inertias are re-assigned through setMassProperties: massMatrix = MassMatrix of the new inertias',
             out['M2'], out['ker_M2'])


register(type('Arm_dynamics_wrappers_2R_fixed', (_ArmDyn,), dict()))
