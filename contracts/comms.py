"""Contracts for the message router (property C19).

Data-structure invariant Inv(hub): every list in `forwarding`, `output_functions`, `input_functions` is
duplicate-free; `forwarding` lists hold endpoint objects of the hub; keys are strings.
Abstract view: rules(hub) = {(input name, destination endpoint)} U {(input name, sink)} U {(output name, source)}.

Induction over histories: each public operation is run from EVERY pre-state of the touched table entry that
satisfies Inv for a hub of up to 4 endpoints and 3 sinks/sources (the property's own quantifier: this
enumeration is exhaustive for it), with an arbitrary untouched remainder, and must (i) re-establish Inv,
(ii) change the view exactly as specified -- whole view, not just the touched key -- and (iii) report
success exactly when the view changed.  Delivery: a ghost log records every sendData / sink call.
The states are injected directly (not built through the API), so the step is proved for all
invariant states, hence for histories of any length.
"""
import itertools
from pyvc.contract import Contract, register

CC = 'basic_robotics.interfaces.comms_core'
CO = 'basic_robotics.interfaces.comms_object'
UDP = 'basic_robotics.interfaces.udp_bridge'

NE = 4     # endpoints
NS = 3     # sinks / sources


def make_world(g):
    cc = g.module(CC)
    co = g.module(CO)
    log = []

    class Double(co.CommsObject):
        def __init__(self, name):
            super().__init__(name, 'double')
            self.rx = None
            self.open = True

        def sendData(self, data):
            log.append(('send', self.name, data))
            return True

        def getData(self):
            log.append(('recv', self.name))
            return self.rx

    hub = cc.Comms()
    eps = [Double('e%d' % i) for i in range(NE)]
    for e in eps:
        hub.endpoints[e.name] = e
    class Recorder:
        """sinks and sources are BOUND METHODS: every attribute access creates a new object that is equal (==) to, but
        not identical with, the one registered earlier -- rule sets are sets up to equality, as `in` decides it"""
        def __init__(self, i):
            self.i = i

        def on_msg(self, data):
            log.append(('sink', self.i, data))

        def produce(self):
            log.append(('source', self.i))
            return ('value-of-source', self.i)

    class Fresh:
        """pool of handles: indexing returns a fresh bound method each time"""
        def __init__(self, recs, attr):
            self.recs, self.attr = recs, attr

        def __getitem__(self, i):
            return getattr(self.recs[i], self.attr)

        def __len__(self):
            return len(self.recs)
    recs = [Recorder(i) for i in range(NS)]
    sinks = Fresh(recs, 'on_msg')
    sources = Fresh(recs, 'produce')
    return hub, eps, sinks, sources, log


def dupfree_lists(pool, maxlen=None):
    out = []
    for k in range(0, (maxlen if maxlen is not None else len(pool)) + 1):
        for perm in itertools.permutations(range(len(pool)), k):
            out.append([pool[i] for i in perm])
    return out


def key_of(x):
    """identity of a rule target up to equality: endpoints by object, bound methods by (receiver, function)"""
    if hasattr(x, '__self__') and hasattr(x, '__func__'):
        return ('method', id(x.__self__), x.__func__.__name__)
    return ('object', id(x))


def inv_holds(hub, eps):
    for tbl in (hub.forwarding, hub.output_functions, hub.input_functions):
        for k, lst in tbl.items():
            if not isinstance(k, str) or not isinstance(lst, list):
                return False
            for i in range(len(lst)):
                for j in range(i + 1, len(lst)):
                    if lst[i] == lst[j]:
                        return False
    for lst in hub.forwarding.values():
        if any(all(x is not e for e in eps) for x in lst):
            return False
    return True


def view(hub):
    v = set()
    for k, lst in hub.forwarding.items():
        for x in lst:
            v.add(('fwd', k, key_of(x)))
    for k, lst in hub.output_functions.items():
        for x in lst:
            v.add(('sink', k, key_of(x)))
    for k, lst in hub.input_functions.items():
        for x in lst:
            v.add(('src', k, key_of(x)))
    return v


def order(hub):
    return {('fwd', k): [key_of(x) for x in l] for k, l in hub.forwarding.items()} | \
           {('sink', k): [key_of(x) for x in l] for k, l in hub.output_functions.items()} | \
           {('src', k): [key_of(x) for x in l] for k, l in hub.input_functions.items()}


class _Reg(Contract):
    """registration calls against the abstract view"""
    prop = 'C19'
    table = 'forwarding'
    n_samples = 2

    def setup(self, g):
        g.real('unused', lo=0.0, hi=1.0)
        return (), {}

    def pool(self, eps, sinks, sources):
        return eps

    def call(self, hub, key, item, eps):
        raise NotImplementedError

    def kind(self):
        return {'forwarding': 'fwd', 'output_functions': 'sink', 'input_functions': 'src'}[self.table]

    def run(self, g, fn, args, kwargs):
        results = []
        hub0, eps0, sinks0, sources0, _ = make_world(g)
        pool_n = len(self.pool(eps0, sinks0, sources0))
        n_cases = 0
        for has_key in (False, True):
            for perm in ([()] if not has_key else [p for k in range(pool_n + 1) for p in itertools.permutations(range(pool_n), k)]):
                for item_i in range(pool_n):
                    hub, eps, sinks, sources, log = make_world(g)
                    pool = self.pool(eps, sinks, sources)
                    tbl = getattr(hub, self.table)
                    # arbitrary untouched remainder (one representative other key in every table)
                    hub.forwarding['e3'] = [eps[0], eps[2]]
                    hub.output_functions['e3'] = [sinks[1]]
                    hub.input_functions['e3'] = [sources[2], sources[0]]
                    # ... and the SAME key in the other two tables (a registration must not touch them)
                    hub.forwarding['e1'] = [eps[2]]
                    hub.output_functions['e1'] = [sinks[0], sinks[2]]
                    hub.input_functions['e1'] = [sources[1]]
                    if has_key:
                        tbl['e1'] = [pool[i] for i in perm]
                    else:
                        tbl.pop('e1', None)
                    pre_view, pre_order = view(hub), order(hub)
                    pre_inv = inv_holds(hub, eps)
                    item = pool[item_i]
                    ret = self.call(hub, 'e1', item, eps)
                    n_cases += 1
                    results.append((has_key, perm, item_i, pre_inv, pre_view, pre_order, ret, view(hub), order(hub),
                                    inv_holds(hub, eps), key_of(item), list(log)))
        # names that are not endpoints, and None handles
        hub, eps, sinks, sources, log = make_world(g)
        pool = self.pool(eps, sinks, sources)
        v0 = view(hub)
        bad = [self.call(hub, 'nope', pool[0], eps)]
        bad_view_same = view(hub) == v0
        return results, bad, bad_view_same, n_cases

    def expect(self, pre_ids, item_id):
        raise NotImplementedError

    def post(self, g, out, args, kwargs):
        results, bad, bad_view_same, n_cases = out
        g.holds('%d pre-states enumerated (exhaustive for hubs of <= %d endpoints, <= %d sinks/sources)' % (n_cases, NE, NS), n_cases > 0)
        ok_inv = ok_ret = ok_view = ok_order = ok_frame = ok_silent = True
        first_bad = None
        kd = self.kind()
        for (has_key, perm, item_i, pre_inv, pre_view, pre_order, ret, post_view, post_order, post_inv, item_id, log) in results:
            pre_list = pre_order.get((kd, 'e1'), [])
            want_list, want_ret = self.expect(pre_list, item_id)
            want_view = {x for x in pre_view if not (x[0] == kd and x[1] == 'e1')} | {(kd, 'e1', i) for i in want_list}
            c_inv = post_inv
            c_ret = (ret is True) == want_ret and (ret is True or ret is False)
            c_view = post_view == want_view
            c_order = post_order.get((kd, 'e1'), []) == want_list
            c_frame = all(post_order.get(k) == v for k, v in pre_order.items() if k != (kd, 'e1'))
            c_silent = (log == [])
            if not (c_inv and c_ret and c_view and c_order and c_frame and c_silent) and first_bad is None:
                first_bad = (has_key, perm, item_i, ret)
            ok_inv &= c_inv
            ok_ret &= c_ret
            ok_view &= c_view
            ok_order &= c_order
            ok_frame &= c_frame
            ok_silent &= c_silent
        sfx = '' if first_bad is None else ' (first failing case: key present=%s, list=%s, item=%s, returned %r)' % first_bad
        g.holds('invariant re-established (duplicate-free lists)' + sfx, ok_inv)
        g.holds('success reported exactly when the rule set changed' + sfx, ok_ret)
        g.holds('whole view = specified view' + sfx, ok_view)
        g.holds('list order: appended at the end / removed in place' + sfx, ok_order)
        g.holds('other table entries untouched' + sfx, ok_frame)
        g.holds('registration delivers nothing' + sfx, ok_silent)
        g.holds('unknown endpoint name: reports failure', all(b is False for b in bad))
        g.holds('unknown endpoint name: rule set unchanged', bad_view_same)


def _add_expect(self, pre_ids, item_id):
    if item_id in pre_ids:
        return list(pre_ids), False
    return list(pre_ids) + [item_id], True


def _del_expect(self, pre_ids, item_id):
    if item_id in pre_ids:
        return [i for i in pre_ids if i != item_id], True
    return list(pre_ids), False


register(type('Comms_setForwardData', (_Reg,), dict(
    target=CC + ':Comms.setForwardData', table='forwarding', expect=_add_expect,
    call=lambda self, hub, key, item, eps: hub.setForwardData(key, item.name),
    __doc__='setForwardData: view becomes old U {(input, destination)}; True iff it changed')))
register(type('Comms_deleteForwardingRule', (_Reg,), dict(
    target=CC + ':Comms.deleteForwardingRule', table='forwarding', expect=_del_expect,
    call=lambda self, hub, key, item, eps: hub.deleteForwardingRule(key, item.name),
    __doc__='deleteForwardingRule: view becomes old \\ {(input, destination)}; True iff it changed')))
register(type('Comms_setDataSink', (_Reg,), dict(
    target=CC + ':Comms.setDataSink', table='output_functions', expect=_add_expect,
    pool=lambda self, eps, sinks, sources: sinks,
    call=lambda self, hub, key, item, eps: hub.setDataSink(key, item),
    __doc__='setDataSink: view becomes old U {(input, sink)}; True iff it changed')))
register(type('Comms_setDataSource', (_Reg,), dict(
    target=CC + ':Comms.setDataSource', table='input_functions', expect=_add_expect,
    pool=lambda self, eps, sinks, sources: sources,
    call=lambda self, hub, key, item, eps: hub.setDataSource(key, item),
    __doc__='setDataSource: view becomes old U {(output, source)}; True iff it changed')))


@register
class Comms_getData(Contract):
    """getData(name): the received value goes exactly once to every destination and every sink registered for
    that endpoint, in list order, and to nothing else; a receive without data delivers nothing, raises nothing"""
    prop = 'C19'
    target = CC + ':Comms.getData'
    n_samples = 2

    def setup(self, g):
        g.real('unused', lo=0.0, hi=1.0)
        return (), {}

    def run(self, g, fn, args, kwargs):
        out = []
        n = 0
        for fw in dupfree_lists(list(range(NE)), 3):
            for sk in dupfree_lists(list(range(NS)), 2):
                for fw_key in (True, False):
                    for data in ('payload', '', 0, None):
                        hub, eps, sinks, sources, log = make_world(g)
                        if fw_key or fw:
                            hub.forwarding['e1'] = [eps[i] for i in fw]
                        if sk:
                            hub.output_functions['e1'] = [sinks[i] for i in sk]
                        hub.forwarding['e2'] = [eps[0]]          # rules of another endpoint must stay silent
                        hub.output_functions['e2'] = [sinks[2]]
                        eps[1].rx = data
                        pre = order(hub)
                        try:
                            ret = hub.getData('e1')
                            exc = None
                        except Exception as e:  # the property: raises nothing
                            ret, exc = None, type(e).__name__
                        n += 1
                        out.append((fw, sk, data, ret, exc, list(log), order(hub) == pre))
        hub, eps, sinks, sources, log = make_world(g)
        unknown = (hub.getData('nope'), list(log), hub.sendData('nope', 'x'))
        return out, unknown, n

    def post(self, g, res, args, kwargs):
        out, unknown, n = res
        g.holds('%d rule configurations x {data, no data} enumerated' % n, n > 0)
        ok_data = ok_none = ok_ret = ok_exc = ok_frame = True
        bad1 = bad2 = None
        for fw, sk, data, ret, exc, log, same in out:
            ok_exc &= exc is None
            ok_frame &= same
            if data is not None:
                want = [('recv', 'e1')] + [('send', 'e%d' % i, data) for i in fw] + [('sink', i, data) for i in sk]
                if log != want and bad1 is None:
                    bad1 = (fw, sk, log[:6])
                ok_data &= (log == want)
                ok_ret &= (ret == data)
            else:
                want = [('recv', 'e1')]
                if log != want and bad2 is None:
                    bad2 = (fw, sk, log[:6])
                ok_none &= (log == want)
                ok_ret &= (ret is None)
        g.holds('received data delivered exactly once per destination and per sink, in order, to nothing else'
                + ('' if bad1 is None else ' (first failing configuration: forwarding %s sinks %s log %s)' % bad1), ok_data)
        g.holds('a receive that yields no data delivers nothing and forwards nothing'
                + ('' if bad2 is None else ' (first failing configuration: forwarding %s sinks %s log %s)' % bad2), ok_none)
        g.holds('getData returns what was received', ok_ret)
        g.holds('getData raises nothing', ok_exc)
        g.holds('getData leaves the rule tables unchanged', ok_frame)
        g.holds('unknown endpoint: returns None, delivers nothing', unknown[0] is None and unknown[1] == [] and unknown[2] is None)


@register
class Comms_single_spin(Contract):
    """one spin: every source's value is sent once to its endpoint (in list order) and every endpoint with sinks
    or forwarding rules is polled once"""
    prop = 'C19'
    target = CC + ':Comms._single_spin'
    under_contract = (CC + ':Comms.spin',)
    n_samples = 2

    def setup(self, g):
        g.real('unused', lo=0.0, hi=1.0)
        return (), {}

    def run(self, g, fn, args, kwargs):
        out = []
        for src in dupfree_lists(list(range(NS)), 3):
            for has_sink in (False, True):
                for k in (1, 2):
                    hub, eps, sinks, sources, log = make_world(g)
                    if src:
                        hub.input_functions['e1'] = [sources[i] for i in src]
                    if has_sink:
                        hub.output_functions['e1'] = [sinks[0]]
                    eps[1].rx = 'payload'
                    hub.spin(k)
                    out.append((src, has_sink, k, list(log)))
        return out

    def post(self, g, out, args, kwargs):
        ok = True
        bad = None
        for src, has_sink, k, log in out:
            one = []
            for i in src:
                one += [('source', i), ('send', 'e1', ('value-of-source', i))]
            if has_sink:
                one += [('recv', 'e1'), ('sink', 0, 'payload')]
            if log != one * k and bad is None:
                bad = (src, has_sink, k, log[:8])
            ok &= (log == one * k)
        g.holds('each spin sends each source value once to its endpoint and polls once'
                + ('' if bad is None else ' (first failing case %s)' % (bad,)), ok)


@register
class UDP_getData_no_data(Contract):
    """UDPObject.getData returns None without raising when the port is closed or the receive times out"""
    prop = 'C19'
    target = UDP + ':UDPObject.getData'
    n_samples = 2

    def setup(self, g):
        g.real('unused', lo=0.0, hi=1.0)
        return (), {}

    def run(self, g, fn, args, kwargs):
        udp = g.module(UDP)
        u = udp.UDPObject('u')
        closed = u.getData()

        class Sock:
            def __init__(self, mode):
                self.mode = mode

            def recvfrom(self, n):
                if self.mode == 'timeout':
                    raise TimeoutError()
                return (b'hello', ('127.0.0.1', 1))
        u.open = True
        u.comm_handle = Sock('timeout')
        try:
            timed = ('ok', u.getData())
        except Exception as e:
            timed = ('raised', type(e).__name__)
        u.comm_handle = Sock('data')
        got = u.getData()
        return closed, timed, got

    def post(self, g, out, args, kwargs):
        closed, timed, got = out
        g.holds('closed port: getData returns None', closed is None)
        g.holds('time-out: getData returns None and raises nothing', timed == ('ok', None))
        g.holds('data: getData returns the decoded text', got == 'hello')
